// Package vrand replaces math/rand in the back-off library: jitter is pinned to the middle of the interval
// under the scheduler.
package vrand

import (
	"math/rand"

	"verif.local/vrt"
)

// Float64 returns 0.5 under the scheduler.
func Float64() float64 {
	if vrt.S != nil {
		return 0.5
	}
	return rand.Float64()
}
