// Package vctx wraps the real context package so that cancellation and Err() reads are visible
// operations for the scheduler. Contexts stay real context.Context values; ctx.Done() returns the real
// channel which vrt treats as an externally-closed channel (polled when enabledness is computed).
package vctx

import (
	"context"
	"time"

	"verif.local/vrt"
)

// WithCancel mirrors context.WithCancel.
func WithCancel(p context.Context) (context.Context, context.CancelFunc) {
	c, cancel := context.WithCancel(p)
	vrt.TouchExternal(false)
	return c, func() { vrt.RelPoint(); vrt.TouchExternal(true); cancel() }
}

// WithCancelCause mirrors context.WithCancelCause.
func WithCancelCause(p context.Context) (context.Context, context.CancelCauseFunc) {
	c, cancel := context.WithCancelCause(p)
	vrt.TouchExternal(false)
	return c, func(err error) { vrt.RelPoint(); vrt.TouchExternal(true); cancel(err) }
}

// WithTimeout mirrors context.WithTimeout on the virtual clock.
func WithTimeout(p context.Context, d time.Duration) (context.Context, context.CancelFunc) {
	if !vrt.Active() {
		return context.WithTimeout(p, d)
	}
	c, cancel := context.WithCancelCause(p)
	vrt.TouchExternal(false)
	stop := vrt.AddTimer(int64(d), func() { vrt.TouchExternal(true); cancel(context.DeadlineExceeded) })
	return c, func() { stop(); vrt.TouchExternal(true); cancel(context.Canceled) }
}

// WithDeadline is not used by the code under test; real implementation.
func WithDeadline(p context.Context, t time.Time) (context.Context, context.CancelFunc) {
	return context.WithDeadline(p, t)
}

// Err is ctx.Err() with a scheduling point.
func Err(c context.Context) error {
	vrt.CountShim()
	vrt.Point()
	vrt.TouchExternal(false)
	return c.Err()
}

// Cause is context.Cause with a scheduling point.
func Cause(c context.Context) error { vrt.Point(); vrt.TouchExternal(false); return context.Cause(c) }

// AfterFunc mirrors context.AfterFunc: f runs in its own (scheduled) goroutine once ctx is done, unless stop
// was called first.
func AfterFunc(ctx context.Context, f func()) (stop func() bool) {
	if !vrt.Active() {
		return context.AfterFunc(ctx, f)
	}
	stopCh := make(chan struct{})
	decided := false // written and read only between scheduling points of the two parties
	vrt.GoNamed("context.AfterFunc", func() {
		if vrt.Select(false, vrt.RecvCase(ctx.Done()), vrt.RecvCase((<-chan struct{})(stopCh))) == 0 && !decided {
			decided = true
			vrt.TouchExternal(false)
			f()
		}
	})
	return func() bool {
		vrt.Point()
		if decided {
			return false
		}
		decided = true
		vrt.Close((chan<- struct{})(stopCh))
		return true
	}
}
