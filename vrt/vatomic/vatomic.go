// Package vatomic mirrors sync/atomic types with a scheduling point before every operation.
package vatomic

import (
	"sync/atomic"
	"unsafe"

	"verif.local/vrt"
)

// Bool mirrors atomic.Bool.
type Bool struct{ v atomic.Bool }

func (b *Bool) Load() bool {
	vrt.CountShim()
	vrt.Point()
	vrt.TouchAddr(unsafe.Pointer(b), false)
	return b.v.Load()
}
func (b *Bool) Store(x bool) {
	vrt.CountShim()
	vrt.Point()
	vrt.TouchAddr(unsafe.Pointer(b), true)
	b.v.Store(x)
}
func (b *Bool) Swap(x bool) bool {
	vrt.CountShim()
	vrt.Point()
	vrt.TouchAddr(unsafe.Pointer(b), true)
	return b.v.Swap(x)
}
func (b *Bool) CompareAndSwap(o, n bool) bool {
	vrt.CountShim()
	vrt.Point()
	vrt.TouchAddr(unsafe.Pointer(b), true)
	return b.v.CompareAndSwap(o, n)
}

// Int64 mirrors atomic.Int64.
type Int64 struct{ v atomic.Int64 }

func (b *Int64) Load() int64 {
	vrt.CountShim()
	vrt.Point()
	vrt.TouchAddr(unsafe.Pointer(b), false)
	return b.v.Load()
}
func (b *Int64) Store(x int64) {
	vrt.CountShim()
	vrt.Point()
	vrt.TouchAddr(unsafe.Pointer(b), true)
	b.v.Store(x)
}
func (b *Int64) Add(d int64) int64 {
	vrt.CountShim()
	vrt.Point()
	vrt.TouchAddr(unsafe.Pointer(b), true)
	return b.v.Add(d)
}
func (b *Int64) Swap(x int64) int64 {
	vrt.CountShim()
	vrt.Point()
	vrt.TouchAddr(unsafe.Pointer(b), true)
	return b.v.Swap(x)
}
func (b *Int64) CompareAndSwap(o, n int64) bool {
	vrt.CountShim()
	vrt.Point()
	vrt.TouchAddr(unsafe.Pointer(b), true)
	return b.v.CompareAndSwap(o, n)
}

// Int32 mirrors atomic.Int32.
type Int32 struct{ v atomic.Int32 }

func (b *Int32) Load() int32 {
	vrt.CountShim()
	vrt.Point()
	vrt.TouchAddr(unsafe.Pointer(b), false)
	return b.v.Load()
}
func (b *Int32) Store(x int32) {
	vrt.CountShim()
	vrt.Point()
	vrt.TouchAddr(unsafe.Pointer(b), true)
	b.v.Store(x)
}
func (b *Int32) Add(d int32) int32 {
	vrt.CountShim()
	vrt.Point()
	vrt.TouchAddr(unsafe.Pointer(b), true)
	return b.v.Add(d)
}
func (b *Int32) Swap(x int32) int32 {
	vrt.CountShim()
	vrt.Point()
	vrt.TouchAddr(unsafe.Pointer(b), true)
	return b.v.Swap(x)
}
func (b *Int32) CompareAndSwap(o, n int32) bool {
	vrt.CountShim()
	vrt.Point()
	vrt.TouchAddr(unsafe.Pointer(b), true)
	return b.v.CompareAndSwap(o, n)
}

// Uint64 mirrors atomic.Uint64.
type Uint64 struct{ v atomic.Uint64 }

func (b *Uint64) Load() uint64 {
	vrt.CountShim()
	vrt.Point()
	vrt.TouchAddr(unsafe.Pointer(b), false)
	return b.v.Load()
}
func (b *Uint64) Store(x uint64) {
	vrt.CountShim()
	vrt.Point()
	vrt.TouchAddr(unsafe.Pointer(b), true)
	b.v.Store(x)
}
func (b *Uint64) Add(d uint64) uint64 {
	vrt.CountShim()
	vrt.Point()
	vrt.TouchAddr(unsafe.Pointer(b), true)
	return b.v.Add(d)
}
func (b *Uint64) CompareAndSwap(o, n uint64) bool {
	vrt.CountShim()
	vrt.Point()
	vrt.TouchAddr(unsafe.Pointer(b), true)
	return b.v.CompareAndSwap(o, n)
}

// Uint32 mirrors atomic.Uint32.
type Uint32 struct{ v atomic.Uint32 }

func (b *Uint32) Load() uint32 {
	vrt.CountShim()
	vrt.Point()
	vrt.TouchAddr(unsafe.Pointer(b), false)
	return b.v.Load()
}
func (b *Uint32) Store(x uint32) {
	vrt.CountShim()
	vrt.Point()
	vrt.TouchAddr(unsafe.Pointer(b), true)
	b.v.Store(x)
}
func (b *Uint32) Add(d uint32) uint32 {
	vrt.CountShim()
	vrt.Point()
	vrt.TouchAddr(unsafe.Pointer(b), true)
	return b.v.Add(d)
}
func (b *Uint32) CompareAndSwap(o, n uint32) bool {
	vrt.CountShim()
	vrt.Point()
	vrt.TouchAddr(unsafe.Pointer(b), true)
	return b.v.CompareAndSwap(o, n)
}

// Value is atomic.Value.
type Value = atomic.Value

// Pointer mirrors atomic.Pointer.
type Pointer[T any] struct{ v atomic.Pointer[T] }

func (p *Pointer[T]) Load() *T {
	vrt.CountShim()
	vrt.Point()
	vrt.TouchAddr(unsafe.Pointer(p), false)
	return p.v.Load()
}
func (p *Pointer[T]) Store(x *T) {
	vrt.CountShim()
	vrt.Point()
	vrt.TouchAddr(unsafe.Pointer(p), true)
	p.v.Store(x)
}
func (p *Pointer[T]) Swap(x *T) *T {
	vrt.CountShim()
	vrt.Point()
	vrt.TouchAddr(unsafe.Pointer(p), true)
	return p.v.Swap(x)
}
func (p *Pointer[T]) CompareAndSwap(o, n *T) bool {
	vrt.CountShim()
	vrt.Point()
	vrt.TouchAddr(unsafe.Pointer(p), true)
	return p.v.CompareAndSwap(o, n)
}
