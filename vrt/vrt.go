// Package vrt is the cooperative scheduler runtime the instrumented code runs on.
//
// Model: every managed goroutine is parked right before its next visible operation; a transition fires
// one enabled operation (or a rendez-vous pair) and runs the goroutine(s) involved up to their next
// park.  Exactly one managed goroutine runs at any time.  With no active scheduler (S == nil) every
// shim delegates to the real primitive (passthrough mode).
package vrt

import (
	"fmt"
	"hash/fnv"
	"reflect"
	"runtime"
	"runtime/debug"
	"sort"
	"strings"
	"sync/atomic"
	"unsafe"
)

// ---------------------------------------------------------------- goroutines

// G is a managed goroutine.
type G struct {
	ID     int
	Name   string
	wake   chan bool // true = abort
	parked chan struct{}
	op     *Op
	done   bool
	vc     []int32 // happens-before clock of the goroutine's last step (HB mode)
	nstep  int32
}

// OpKind enumerates visible operations.
type OpKind int

// Visible operation kinds.
const (
	OpYield OpKind = iota
	OpLock
	OpRLock
	OpCondWake
	OpSend
	OpRecv
	OpSelect
	OpWGWait
	OpAtomic
	OpOnce
	OpIdle
	OpChoose
	OpRelease
)

func (k OpKind) String() string {
	return [...]string{"yield", "lock", "rlock", "condwake", "send", "recv", "select", "wgwait", "atomic", "once", "idle", "choose", "release"}[k]
}

// Op is the pending visible operation of a parked goroutine.
type Op struct {
	Kind  OpKind
	Obj   any
	Cases []ChCase
	Def   bool
	N     int    // OpChoose: number of alternatives
	Label string // OpChoose / OpAtomic label
	// results
	Chosen int
	OK     bool
}

// ChCase is one channel operation of a goroutine.
type ChCase interface {
	state(s *Sched) *ChanState
	isSend() bool
	take(v any, ok bool)
	value() any
	pollReal(cs *ChanState)
}

// Sched is the state of one controlled execution.
type Sched struct {
	gs       []*G
	cur      *G
	aborting bool
	chans    map[unsafe.Pointer]*ChanState
	Now      int64 // virtual nanoseconds
	timers   []*vtimer
	tseq     int

	prefix      []int
	Choices     []Choice
	Steps       int
	Trace       []string
	KeepTrace   bool
	Panics      []string
	MaxSteps    int
	NoBranch    bool
	RelPoints   bool // pure releases are scheduling points too
	hash        uint64
	Diverged    string
	TimersFired int
	objSeq      int

	// happens-before fingerprinting (Options.HB)
	hb      bool
	touched []touchRec
	fp      [2]uint64
	epoch   uint64
	addrClk map[unsafe.Pointer]*Clk
	keyClk  map[string]*Clk
	spawned []*G
	gSpawn  Clk
	gTimers Clk
	gClock  Clk
	gExt    Clk
}

// Choice is one recorded decision point (only points with more than one transition are recorded).
type Choice struct {
	N, Pick   int
	NCur      int  // number of leading transitions that continue the running goroutine
	CurOK     bool // running goroutine could have continued (switching = preemption)
	Preempted bool
	Key       [2]uint64 // HB mode: fingerprint of the state in which the decision is taken
	EnvMask   uint64    // bit i set: alternative i is an environment choice (vrt.Choose), not a scheduling one
}

// S is the active scheduler (nil = passthrough).
var S *Sched

// ShimOps counts synchronisation operations that reached the scheduler through the vsync shims, i.e. from
// instrumented code (harness code uses the vrt API directly). Zero after a concurrent scenario means the
// overlay was not applied and the exploration would be vacuous.
var ShimOps int64

// CountShim counts one shim operation (atomic: passthrough-mode bodies run on real threads).
func CountShim() { atomic.AddInt64(&ShimOps, 1) }

// Active reports whether the calling code runs under the scheduler.
func Active() bool { s := S; return s != nil && s.cur != nil }

// Aborting reports whether the execution is being torn down (leftover goroutines unwinding).
func Aborting() bool { s := S; return s != nil && s.aborting }

// Branching switches exploration of alternatives on/off (deterministic prologue/epilogue).
func Branching(on bool) {
	if S != nil {
		S.NoBranch = !on
	}
}

// Now returns the virtual time in nanoseconds.
func Now() int64 {
	if s := S; s != nil {
		s.touch(&s.gClock, false)
		return s.Now
	}
	return 0
}

// CurID returns the id of the running managed goroutine (-1 outside).
func CurID() int {
	if s := S; s != nil && s.cur != nil {
		return s.cur.ID
	}
	return -1
}

// SetName names the current goroutine (for traces).
func SetName(n string) {
	if s := S; s != nil && s.cur != nil {
		s.cur.Name = n
	}
}

func (s *Sched) resume(g *G) {
	prev := s.cur
	s.cur = g
	g.wake <- s.aborting
	<-g.parked
	s.cur = prev
}

func (s *Sched) park(op *Op) {
	g := s.cur
	if s.aborting {
		runtime.Goexit()
	}
	g.op = op
	g.parked <- struct{}{}
	if abort := <-g.wake; abort {
		g.op = nil
		runtime.Goexit()
	}
	g.op = nil
}

func (s *Sched) recordPanic(g *G, r any) {
	st := string(debug.Stack())
	// keep the part of the stack below the panic call
	if i := strings.Index(st, "panic("); i >= 0 {
		st = st[i:]
	}
	lines := strings.Split(st, "\n")
	if len(lines) > 14 {
		lines = lines[:14]
	}
	s.Panics = append(s.Panics, fmt.Sprintf("g%d(%s): %v\n%s", g.ID, g.Name, r, strings.Join(lines, "\n")))
}

func (s *Sched) spawn(name string, f func()) *G {
	g := &G{ID: len(s.gs), Name: name, wake: make(chan bool), parked: make(chan struct{})}
	s.gs = append(s.gs, g)
	if s.hb {
		s.spawned = append(s.spawned, g)
		s.touched = append(s.touched, touchRec{&s.gSpawn, true})
	}
	go func() {
		defer func() {
			if r := recover(); r != nil {
				s.recordPanic(g, r)
			}
			g.done = true
			g.op = nil
			g.parked <- struct{}{}
		}()
		if abort := <-g.wake; abort {
			return
		}
		f()
	}()
	return g
}

// Go starts a managed goroutine (or a plain one in passthrough mode).
func Go(f func()) {
	s := S
	if s == nil || s.cur == nil {
		go f()
		return
	}
	if s.aborting {
		return
	}
	g := s.spawn("", f)
	s.resume(g) // run child up to its first visible op, then continue the parent
}

// GoNamed is Go with a name for traces.
func GoNamed(name string, f func()) {
	s := S
	if s == nil || s.cur == nil {
		go f()
		return
	}
	if s.aborting {
		return
	}
	g := s.spawn(name, f)
	s.resume(g)
}

// Yield is a voluntary scheduling point (never a preemption).
func Yield() {
	if s := S; s != nil && s.cur != nil {
		s.park(&Op{Kind: OpYield})
	}
}

// Point is an involuntary scheduling point before a non-blocking acquire-type op (atomics, ctx.Err).
func Point() {
	if s := S; s != nil && s.cur != nil {
		s.park(&Op{Kind: OpAtomic})
	}
}

// RelPoint is a scheduling point before a pure release; active only when Sched.RelPoints is set.
func RelPoint() {
	if s := S; s != nil && s.cur != nil && s.RelPoints && !s.aborting {
		s.park(&Op{Kind: OpRelease})
	}
}

// Choose is an environment choice with n alternatives; returns 0..n-1. Passthrough: 0.
func Choose(n int, label string) int {
	s := S
	if s == nil || s.cur == nil || n <= 1 {
		return 0
	}
	op := &Op{Kind: OpChoose, N: n, Label: label}
	s.park(op)
	return op.Chosen
}

// WaitQuiescent parks the caller until no other goroutine can make progress (pending timers do not count).
func WaitQuiescent() {
	if s := S; s != nil && s.cur != nil {
		s.park(&Op{Kind: OpIdle})
	}
}

// ---------------------------------------------------------------- transitions

type trans struct {
	g       *G
	caseIdx int
	partner *G
	pcase   int
}

func (t trans) involves(g *G) bool { return t.g == g || t.partner == g }

func isChanOp(op *Op) bool { return op.Kind == OpSend || op.Kind == OpRecv || op.Kind == OpSelect }

func (s *Sched) enabled() []trans {
	var out []trans
	for _, g := range s.gs {
		if g.done || g.op == nil {
			continue
		}
		op := g.op
		switch op.Kind {
		case OpYield, OpAtomic, OpRelease:
			out = append(out, trans{g: g})
		case OpChoose:
			for i := 0; i < op.N; i++ {
				out = append(out, trans{g: g, caseIdx: i})
			}
		case OpLock:
			if op.Obj.(lockable).canLock() {
				out = append(out, trans{g: g})
			}
		case OpRLock:
			if op.Obj.(*RWMutexState).canRLock() {
				out = append(out, trans{g: g})
			}
		case OpCondWake:
			w := op.Obj.(*condWaiter)
			if w.signalled && w.mu.canLock() {
				out = append(out, trans{g: g})
			}
		case OpWGWait:
			if op.Obj.(*WGState).n == 0 {
				out = append(out, trans{g: g})
			}
		case OpOnce:
			if !op.Obj.(*OnceState).running {
				out = append(out, trans{g: g})
			}
		case OpSend, OpRecv, OpSelect:
			found := false
			for i, c := range op.Cases {
				if c == nil {
					continue
				}
				cs := c.state(s)
				if cs == nil { // nil channel
					continue
				}
				if c.isSend() {
					if cs.closed {
						out = append(out, trans{g: g, caseIdx: i}) // will panic
						found = true
					} else if len(cs.buf) < cs.cap {
						out = append(out, trans{g: g, caseIdx: i})
						found = true
					} else if cs.cap == 0 {
						for _, h := range s.gs {
							if h == g || h.done || h.op == nil || !isChanOp(h.op) {
								continue
							}
							for j, hc := range h.op.Cases {
								if hc != nil && !hc.isSend() && hc.state(s) == cs {
									out = append(out, trans{g: g, caseIdx: i, partner: h, pcase: j})
									found = true
								}
							}
						}
					}
				} else {
					c.pollReal(cs)
					if len(cs.buf) > 0 || cs.closed {
						out = append(out, trans{g: g, caseIdx: i})
						found = true
					}
					if cs.cap == 0 && !cs.closed {
						for _, h := range s.gs {
							if h == g || h.done || h.op == nil || !isChanOp(h.op) {
								continue
							}
							for _, hc := range h.op.Cases {
								if hc != nil && hc.isSend() && hc.state(s) == cs {
									found = true // listed from the sender side
								}
							}
						}
					}
				}
			}
			if !found && op.Kind == OpSelect && op.Def {
				out = append(out, trans{g: g, caseIdx: -1})
			}
		}
	}
	if len(out) == 0 {
		for _, g := range s.gs {
			if !g.done && g.op != nil && g.op.Kind == OpIdle {
				return []trans{{g: g}}
			}
		}
	}
	return out
}

func (s *Sched) fire(t trans) []*G {
	g := t.g
	op := g.op
	switch op.Kind {
	case OpChoose:
		op.Chosen = t.caseIdx
	case OpLock:
		op.Obj.(lockable).doLock()
		s.touch(op.Obj.(lockable).clock(), true)
	case OpRLock:
		op.Obj.(*RWMutexState).doRLock()
		s.touch(&op.Obj.(*RWMutexState).clk, true)
	case OpCondWake:
		op.Obj.(*condWaiter).mu.doLock()
		s.touch(op.Obj.(*condWaiter).mu.clock(), true)
		s.touch(op.Obj.(*condWaiter).cond, true)
	case OpWGWait:
		s.touch(&op.Obj.(*WGState).clk, false)
	case OpOnce:
		s.touch(&op.Obj.(*OnceState).clk, true)
	case OpSend, OpRecv, OpSelect:
		op.Chosen = t.caseIdx
		if t.caseIdx < 0 && s.hb {
			// default: the step observed that no case was ready
			for _, c := range op.Cases {
				if c != nil {
					if cs := c.state(s); cs != nil {
						s.touch(&cs.clk, false)
					}
				}
			}
			s.touch(&s.gExt, false)
		}
		if t.caseIdx >= 0 {
			c := op.Cases[t.caseIdx]
			cs := c.state(s)
			s.touch(&cs.clk, true)
			if cs.ext {
				s.touch(&s.gExt, false)
			}
			if c.isSend() {
				if cs.closed {
					op.OK = false
				} else if t.partner != nil {
					pop := t.partner.op
					pop.Chosen = t.pcase
					pop.Cases[t.pcase].take(c.value(), true)
					op.OK = true
					return []*G{g, t.partner}
				} else {
					cs.buf = append(cs.buf, c.value())
					op.OK = true
				}
			} else {
				if len(cs.buf) > 0 {
					v := cs.buf[0]
					cs.buf = cs.buf[1:]
					c.take(v, true)
				} else {
					c.take(nil, false)
				}
			}
		}
	}
	return []*G{g}
}

// ---------------------------------------------------------------- run one execution

// Result describes one finished execution.
type Result struct {
	Choices     []Choice
	Steps       int
	Live        []string // goroutines still alive when nothing was enabled any more
	Panics      []string
	Trace       []string
	Truncated   bool
	Hash        uint64 // hash of the fired transitions (replay determinism check)
	Diverged    string
	Goroutines  int
	TimersFired int
	VirtualNow  int64
}

// Options for Run.
type Options struct {
	KeepTrace bool
	RelPoints bool
	MaxSteps  int
	HB        bool // compute happens-before state fingerprints (Choice.Key)
}

// Run executes main under the scheduler following prefix, then default choices.
func Run(prefix []int, o Options, main func()) Result {
	if S != nil {
		panic("vrt: nested Run")
	}
	s := &Sched{prefix: prefix, chans: map[unsafe.Pointer]*ChanState{}, KeepTrace: o.KeepTrace, MaxSteps: o.MaxSteps, RelPoints: o.RelPoints, hb: o.HB}
	if s.MaxSteps == 0 {
		s.MaxSteps = 100000
	}
	S = s
	root := s.spawn("main", main)
	s.resume(root)
	if s.hb {
		s.endStep([]*G{root}, 0)
	}
	last := root
	res := Result{}
	h := fnv.New64a()
	var hb [4]byte
	for {
		ts := s.enabled()
		if len(ts) == 0 {
			if s.fireTimer() {
				if s.hb {
					s.barrier(1)
				}
				continue
			}
			break
		}
		if s.Steps >= s.MaxSteps {
			res.Truncated = true
			break
		}
		sort.SliceStable(ts, func(i, j int) bool {
			ai, aj := ts[i].involves(last), ts[j].involves(last)
			return ai && !aj
		})
		pick := 0
		if len(ts) > 1 && !s.NoBranch {
			ncur := 0
			for _, t := range ts {
				if t.involves(last) {
					ncur++
				}
			}
			curOK := ncur > 0 && last.op != nil && last.op.Kind != OpYield && last.op.Kind != OpIdle
			if len(s.Choices) < len(s.prefix) {
				pick = s.prefix[len(s.Choices)]
				if pick >= len(ts) || pick < 0 {
					s.Diverged = fmt.Sprintf("replay divergence at choice %d: pick %d of %d", len(s.Choices), pick, len(ts))
					pick = 0
				}
			}
			c := Choice{N: len(ts), Pick: pick, NCur: ncur, CurOK: curOK, Preempted: curOK && !ts[pick].involves(last)}
			for i, t := range ts {
				if i < 64 && t.g.op.Kind == OpChoose {
					c.EnvMask |= 1 << uint(i)
				}
			}
			if s.hb {
				c.Key = [2]uint64{mix(s.fp[0], uint64(last.ID)+1), mix(s.fp[1], uint64(last.ID)+1)}
			}
			s.Choices = append(s.Choices, c)
		}
		t := ts[pick]
		hb[0], hb[1], hb[2], hb[3] = byte(t.g.ID), byte(t.g.op.Kind), byte(t.caseIdx+1), byte(len(ts))
		h.Write(hb[:])
		if s.KeepTrace {
			s.Trace = append(s.Trace, s.describe(t, len(ts)))
		}
		s.Steps++
		if s.hb && t.g.op.Kind == OpIdle {
			s.barrier(2)
		}
		label := uint64(t.g.op.Kind)<<32 | uint64(uint32(t.caseIdx+1))<<8 | uint64(uint8(t.pcase))
		fired := s.fire(t)
		for _, g := range fired {
			s.resume(g)
		}
		if s.hb {
			s.endStep(fired, label)
		}
		last = t.g
	}
	for _, g := range s.gs {
		if !g.done {
			res.Live = append(res.Live, fmt.Sprintf("g%d(%s)@%v", g.ID, g.Name, g.op.Kind))
		}
	}
	s.aborting = true
	for _, g := range s.gs {
		if !g.done {
			s.cur = g
			g.wake <- true
			<-g.parked
		}
	}
	s.cur = nil
	S = nil
	if len(s.Choices) < len(s.prefix) && s.Diverged == "" {
		s.Diverged = fmt.Sprintf("replay divergence: execution ended after %d choices, prefix has %d", len(s.Choices), len(s.prefix))
	}
	res.Choices, res.Steps, res.Panics, res.Trace = s.Choices, s.Steps, s.Panics, s.Trace
	res.Hash, res.Diverged, res.Goroutines, res.TimersFired, res.VirtualNow = h.Sum64(), s.Diverged, len(s.gs), s.TimersFired, s.Now
	return res
}

func (s *Sched) describe(t trans, n int) string {
	op := t.g.op
	d := fmt.Sprintf("g%d", t.g.ID)
	if t.g.Name != "" {
		d += "(" + t.g.Name + ")"
	}
	d += " " + op.Kind.String()
	switch op.Kind {
	case OpSend, OpRecv, OpSelect:
		d += fmt.Sprintf(" case=%d", t.caseIdx)
		if t.caseIdx >= 0 {
			if cs := op.Cases[t.caseIdx].state(s); cs != nil {
				d += fmt.Sprintf(" ch#%d", cs.id)
			}
		}
		if t.partner != nil {
			d += fmt.Sprintf(" <-> g%d", t.partner.ID)
		}
	case OpChoose:
		d += fmt.Sprintf(" %s=%d/%d", op.Label, t.caseIdx, op.N)
	}
	if n > 1 {
		d += fmt.Sprintf(" [of %d]", n)
	}
	return d
}

// ---------------------------------------------------------------- mutex / rwmutex / cond / waitgroup / once

type lockable interface {
	canLock() bool
	doLock()
	clock() *Clk
}

// MutexState is the shadow state of a mutex.
type MutexState struct {
	held bool
	clk  Clk
}

func (m *MutexState) clock() *Clk   { return &m.clk }
func (m *RWMutexState) clock() *Clk { return &m.clk }

func (m *MutexState) canLock() bool { return !m.held }
func (m *MutexState) doLock()       { m.held = true }

// Lock acquires the shadow mutex.
func (m *MutexState) Lock() {
	s := S
	if s.aborting {
		if m.held {
			runtime.Goexit()
		}
		m.held = true
		return
	}
	s.park(&Op{Kind: OpLock, Obj: m})
}

// TryLock tries to acquire.
func (m *MutexState) TryLock() bool {
	Point()
	Touch(&m.clk, true)
	if m.held {
		return false
	}
	m.held = true
	return true
}

// Unlock releases the shadow mutex.
func (m *MutexState) Unlock() {
	RelPoint()
	if !m.held && !S.aborting {
		panic("sync: unlock of unlocked mutex")
	}
	m.held = false
	Touch(&m.clk, true)
}

// RWMutexState is the shadow state of a RWMutex (writer preference as in Go).
type RWMutexState struct {
	writer   bool
	readers  int
	wwaiting int
	clk      Clk
}

func (m *RWMutexState) canLock() bool  { return !m.writer && m.readers == 0 }
func (m *RWMutexState) doLock()        { m.writer = true; m.wwaiting-- }
func (m *RWMutexState) canRLock() bool { return !m.writer && m.wwaiting == 0 }
func (m *RWMutexState) doRLock()       { m.readers++ }

// Lock acquires the write lock.
func (m *RWMutexState) Lock() {
	s := S
	if s.aborting {
		if !m.canLock() {
			runtime.Goexit()
		}
		m.writer = true
		return
	}
	// the announcement "a writer is waiting" (which blocks new readers) is itself an ordered step:
	// a scheduling point before it lets a reader that is about to RLock win the race
	s.park(&Op{Kind: OpAtomic})
	m.wwaiting++
	Touch(&m.clk, true)
	s.park(&Op{Kind: OpLock, Obj: m})
}

// Unlock releases the write lock.
func (m *RWMutexState) Unlock() { RelPoint(); m.writer = false; Touch(&m.clk, true) }

// RLock acquires a read lock.
func (m *RWMutexState) RLock() {
	s := S
	if s.aborting {
		if m.writer {
			runtime.Goexit()
		}
		m.readers++
		return
	}
	s.park(&Op{Kind: OpRLock, Obj: m})
}

// RUnlock releases a read lock.
func (m *RWMutexState) RUnlock() {
	RelPoint()
	if m.readers > 0 {
		m.readers--
	}
	Touch(&m.clk, true)
}

type condWaiter struct {
	mu        lockable
	signalled bool
	cond      *Clk
}

// CondState is the shadow state of a condition variable.
type CondState struct {
	waiters []*condWaiter
	clk     Clk
}

// Wait releases mu, waits for a signal and re-acquires mu.
func (c *CondState) Wait(mu lockable, unlock func()) {
	s := S
	if s.aborting {
		runtime.Goexit()
	}
	// joining the wait list is an operation of its own: a Broadcast/Signal issued without the lock can fall
	// between the caller's last check and this registration (the classic lost wake-up)
	Point()
	w := &condWaiter{mu: mu, cond: &c.clk}
	c.waiters = append(c.waiters, w)
	Touch(&c.clk, true)
	unlock()
	s.park(&Op{Kind: OpCondWake, Obj: w})
}

// Broadcast wakes all waiters.
func (c *CondState) Broadcast() {
	RelPoint()
	Touch(&c.clk, true)
	for _, w := range c.waiters {
		w.signalled = true
	}
	c.waiters = nil
}

// Signal wakes the longest waiter.
func (c *CondState) Signal() {
	RelPoint()
	Touch(&c.clk, true)
	if len(c.waiters) > 0 {
		c.waiters[0].signalled = true
		c.waiters = c.waiters[1:]
	}
}

// WGState is the shadow state of a WaitGroup.
type WGState struct {
	n   int
	clk Clk
}

// Add adds d.
func (w *WGState) Add(d int) {
	if d < 0 {
		RelPoint()
	}
	w.n += d
	Touch(&w.clk, true)
	if w.n < 0 {
		panic("sync: negative WaitGroup counter")
	}
}

// Wait blocks until the counter is zero.
func (w *WGState) Wait() {
	if S.aborting {
		return
	}
	S.park(&Op{Kind: OpWGWait, Obj: w})
}

// OnceState is the shadow state of a Once.
type OnceState struct {
	running, done bool
	clk           Clk
}

// Do runs f once.
func (o *OnceState) Do(f func()) {
	Point()
	Touch(&o.clk, true)
	for {
		if o.done {
			return
		}
		if !o.running {
			o.running = true
			defer func() { o.running = false; o.done = true; Touch(&o.clk, true) }()
			f()
			return
		}
		if S.aborting {
			runtime.Goexit()
		}
		S.park(&Op{Kind: OpOnce, Obj: o})
	}
}

// ---------------------------------------------------------------- channels

// ChanState is the shadow state of a channel.
type ChanState struct {
	cap    int
	buf    []any
	closed bool
	keep   any // keeps the real channel alive (its address is the identity)
	id     int
	clk    Clk
	ext    bool // something reached the channel from outside the scheduler (context cancellation, ...)
}

func chanPtr[T any](ch <-chan T) unsafe.Pointer { return *(*unsafe.Pointer)(unsafe.Pointer(&ch)) }

func stateOf[T any](s *Sched, ch <-chan T) *ChanState {
	if ch == nil {
		return nil
	}
	p := chanPtr(ch)
	cs := s.chans[p]
	if cs == nil {
		s.objSeq++
		cs = &ChanState{cap: cap(ch), keep: ch, id: s.objSeq}
		s.chans[p] = cs
	}
	return cs
}

// Sender wraps the send side of a channel.
type Sender[T any] struct{ ch chan<- T }

// Chan wraps ch for sending.
func Chan[T any](ch chan<- T) Sender[T] { return Sender[T]{ch} }

func bidir[T any](ch chan<- T) <-chan T { return *(*<-chan T)(unsafe.Pointer(&ch)) }

// Send sends v.
func (x Sender[T]) Send(v T) {
	s := S
	if s == nil || s.cur == nil {
		x.ch <- v
		return
	}
	c := &SendC[T]{ch: x.ch, v: v}
	op := &Op{Kind: OpSend, Cases: []ChCase{c}}
	s.park(op)
	if !op.OK {
		panic("send on closed channel")
	}
}

// Recv2 receives with the ok flag.
func Recv2[T any](ch <-chan T) (T, bool) {
	s := S
	if s == nil || s.cur == nil {
		v, ok := <-ch
		return v, ok
	}
	c := &RecvC[T]{ch: ch}
	s.park(&Op{Kind: OpRecv, Cases: []ChCase{c}})
	return c.Value, c.OK
}

// Recv1 receives a value.
func Recv1[T any](ch <-chan T) T { v, _ := Recv2(ch); return v }

// Close closes ch.
func Close[T any](ch chan<- T) {
	s := S
	if s == nil || s.cur == nil {
		close(ch)
		return
	}
	RelPoint()
	cs := stateOf(s, bidir(ch))
	if cs.closed {
		panic("close of closed channel")
	}
	cs.closed = true
	Touch(&cs.clk, true)
}

// Len is len(ch) under the scheduler.
func Len[T any](ch <-chan T) int {
	s := S
	if s == nil || s.cur == nil {
		return len(ch)
	}
	cs := stateOf(s, ch)
	if cs == nil {
		return 0
	}
	Touch(&cs.clk, false)
	return len(cs.buf)
}

// Case is a select case.
type Case = ChCase

// RecvC is a receive case.
type RecvC[T any] struct {
	ch    <-chan T
	Value T
	OK    bool
}

// RecvCase builds a receive case.
func RecvCase[T any](ch <-chan T) *RecvC[T] { return &RecvC[T]{ch: ch} }

func (c *RecvC[T]) state(s *Sched) *ChanState { return stateOf(s, c.ch) }
func (c *RecvC[T]) isSend() bool              { return false }
func (c *RecvC[T]) value() any                { return nil }
func (c *RecvC[T]) take(v any, ok bool) {
	c.OK = ok
	if ok && v != nil {
		c.Value = v.(T)
	}
}

// pollReal moves anything that uninstrumented code did to the real channel into the shadow.
func (c *RecvC[T]) pollReal(cs *ChanState) {
	if cs.closed {
		return
	}
	select {
	case v, ok := <-c.ch:
		cs.ext = true
		if !ok {
			cs.closed = true
		} else {
			cs.buf = append(cs.buf, any(v))
		}
	default:
	}
}

// SendC is a send case.
type SendC[T any] struct {
	ch chan<- T
	v  T
}

// SendCase builds a send case.
func SendCase[T any](ch chan<- T) *SendC[T] { return &SendC[T]{ch: ch} }

// With sets the value to send.
func (c *SendC[T]) With(v T) *SendC[T]        { c.v = v; return c }
func (c *SendC[T]) state(s *Sched) *ChanState { return stateOf(s, bidir(c.ch)) }
func (c *SendC[T]) isSend() bool              { return true }
func (c *SendC[T]) value() any                { return any(c.v) }
func (c *SendC[T]) take(any, bool)            {}
func (c *SendC[T]) pollReal(*ChanState)       {}

type realCase interface{ rcase() reflect.SelectCase }

func (c *RecvC[T]) rcase() reflect.SelectCase {
	return reflect.SelectCase{Dir: reflect.SelectRecv, Chan: reflect.ValueOf(c.ch)}
}

func (c *SendC[T]) rcase() reflect.SelectCase {
	return reflect.SelectCase{Dir: reflect.SelectSend, Chan: reflect.ValueOf(c.ch), Send: reflect.ValueOf(&c.v).Elem()}
}

// Select returns the index of the chosen case, or -1 for default.
func Select(hasDefault bool, cases ...Case) int {
	s := S
	if s == nil || s.cur == nil {
		rc := make([]reflect.SelectCase, 0, len(cases)+1)
		for _, c := range cases {
			rc = append(rc, c.(realCase).rcase())
		}
		if hasDefault {
			rc = append(rc, reflect.SelectCase{Dir: reflect.SelectDefault})
		}
		i, v, ok := reflect.Select(rc)
		if hasDefault && i == len(cases) {
			return -1
		}
		if !cases[i].isSend() {
			if ok {
				cases[i].take(v.Interface(), true)
			} else {
				cases[i].take(nil, false)
			}
		}
		return i
	}
	cs := make([]ChCase, len(cases))
	copy(cs, cases)
	op := &Op{Kind: OpSelect, Cases: cs, Def: hasDefault}
	s.park(op)
	if op.Chosen >= 0 && cases[op.Chosen].isSend() && !op.OK {
		panic("send on closed channel")
	}
	return op.Chosen
}

// MapKeys returns the keys of m in a canonical order (sorted by printed form; pointer-like keys by
// first-seen order within the execution).
func MapKeys[M ~map[K]V, K comparable, V any](m M) []K {
	keys := make([]K, 0, len(m))
	for k := range m {
		keys = append(keys, k)
	}
	if len(keys) < 2 {
		return keys
	}
	strs := make(map[K]string, len(keys))
	for _, k := range keys {
		strs[k] = keyString(any(k))
	}
	sort.Slice(keys, func(i, j int) bool { return strs[keys[i]] < strs[keys[j]] })
	return keys
}

func keyString(k any) string {
	switch x := k.(type) {
	case string:
		return x
	case fmt.Stringer:
		rv := reflect.ValueOf(k)
		if rv.Kind() == reflect.Pointer || rv.Kind() == reflect.Chan {
			return ptrOrder(rv.Pointer())
		}
		return x.String()
	}
	rv := reflect.ValueOf(k)
	switch rv.Kind() {
	case reflect.Pointer, reflect.Chan, reflect.UnsafePointer, reflect.Func:
		return ptrOrder(rv.Pointer())
	}
	return fmt.Sprintf("%v", k)
}

var ptrSeen = map[uintptr]int{}

// ptrOrder gives pointer keys a deterministic rank: the order in which they were first iterated.
func ptrOrder(p uintptr) string {
	n, ok := ptrSeen[p]
	if !ok {
		n = len(ptrSeen)
		ptrSeen[p] = n
	}
	return fmt.Sprintf("ptr%012d", n)
}

// ---------------------------------------------------------------- virtual time

type vtimer struct {
	when   int64
	seq    int
	fire   func()
	active bool
}

func (s *Sched) nextTimer() *vtimer {
	var best *vtimer
	for _, t := range s.timers {
		if t.active && (best == nil || t.when < best.when || (t.when == best.when && t.seq < best.seq)) {
			best = t
		}
	}
	return best
}

func (s *Sched) fireTimer() bool {
	best := s.nextTimer()
	if best == nil {
		return false
	}
	if best.when > s.Now {
		s.Now = best.when
	}
	best.active = false
	s.TimersFired++
	s.touch(&s.gTimers, true)
	s.touch(&s.gClock, true)
	best.fire()
	// compact
	if len(s.timers) > 64 {
		n := s.timers[:0]
		for _, t := range s.timers {
			if t.active {
				n = append(n, t)
			}
		}
		s.timers = n
	}
	return true
}

// PendingTimer returns the virtual time of the next pending timer (ok=false if none).
func PendingTimer() (int64, bool) {
	s := S
	if s == nil {
		return 0, false
	}
	t := s.nextTimer()
	if t == nil {
		return 0, false
	}
	return t.when, true
}

// FireNextTimer fires the next pending timer (advancing the virtual clock); for harness use at quiescence.
func FireNextTimer() bool {
	s := S
	if s == nil {
		return false
	}
	ok := s.fireTimer()
	if ok && s.hb {
		s.barrier(3)
	}
	return ok
}

// AddTimer registers a virtual timer; fire runs on the scheduler side and must not block.
func AddTimer(d int64, fire func()) (stop func() bool) {
	s := S
	s.tseq++
	t := &vtimer{when: s.Now + d, fire: fire, active: true, seq: s.tseq}
	s.timers = append(s.timers, t)
	s.touch(&s.gTimers, true)
	s.touch(&s.gClock, false)
	return func() bool { s.touch(&s.gTimers, true); was := t.active; t.active = false; return was }
}

// TimerSend delivers v into ch's shadow buffer (timer channels have capacity 1).
func TimerSend[T any](ch chan T, v T) {
	cs := stateOf(S, (<-chan T)(ch))
	S.touch(&cs.clk, true)
	if len(cs.buf) < 1 {
		cs.buf = append(cs.buf, any(v))
	}
}

// DrainTimer removes a pending value (Go >= 1.23 Stop/Reset semantics).
func DrainTimer[T any](ch chan T) bool {
	cs := stateOf(S, (<-chan T)(ch))
	S.touch(&cs.clk, true)
	had := len(cs.buf) > 0
	cs.buf = nil
	return had
}

// SpawnFromTimer starts a managed goroutine from a timer callback (time.AfterFunc).
func SpawnFromTimer(f func()) {
	s := S
	g := s.spawn("afterfunc", f)
	s.resume(g)
}

// ---------------------------------------------------------------- happens-before fingerprints
//
// In HB mode every step (the code a goroutine runs from one visible operation up to the next) records the
// synchronisation objects it touches. A step happens after the previous step of its goroutine(s), after the
// last writing step of every object it touches and, if it writes the object, after all steps that read it.
// The state reached by a prefix is identified by the set of its steps, each labelled with goroutine, per-
// goroutine index, chosen alternative and vector clock: two prefixes with equal sets are linearisations of
// the same partial order, and - provided goroutines communicate only through touched objects (data-race
// freedom; harness-level shared state is declared with TouchKey) - end in the same state.

// Clk is the happens-before clock of one synchronisation object.
type Clk struct{ w, r []int32 }

type touchRec struct {
	c     *Clk
	write bool
}

func (s *Sched) touch(c *Clk, write bool) {
	if s.hb {
		s.touched = append(s.touched, touchRec{c, write})
	}
}

// Touch records that the running step accesses the object owning c.
func Touch(c *Clk, write bool) {
	if s := S; s != nil && s.hb {
		s.touched = append(s.touched, touchRec{c, write})
	}
}

// TouchAddr records an access to the object at address p (atomics).
func TouchAddr(p unsafe.Pointer, write bool) {
	s := S
	if s == nil || !s.hb {
		return
	}
	c := s.addrClk[p]
	if c == nil {
		if s.addrClk == nil {
			s.addrClk = map[unsafe.Pointer]*Clk{}
		}
		c = &Clk{}
		s.addrClk[p] = c
	}
	s.touched = append(s.touched, touchRec{c, write})
}

// TouchKey records an access to a named piece of shared state that is not a synchronisation object of the
// code under test (harness logs, probes, context cancellation).
func TouchKey(key string, write bool) {
	s := S
	if s == nil || !s.hb {
		return
	}
	c := s.keyClk[key]
	if c == nil {
		if s.keyClk == nil {
			s.keyClk = map[string]*Clk{}
		}
		c = &Clk{}
		s.keyClk[key] = c
	}
	s.touched = append(s.touched, touchRec{c, write})
}

// TouchExternal records an access to state that lives outside the scheduler's shadow objects (the real
// context tree): cancellation writes it, Err()/Done() observers read it.
func TouchExternal(write bool) {
	if s := S; s != nil && s.hb {
		s.touched = append(s.touched, touchRec{&s.gExt, write})
	}
}

func mix(h, v uint64) uint64 {
	h ^= v + 0x9E3779B97F4A7C15 + (h << 6) + (h >> 2)
	h *= 0xBF58476D1CE4E5B9
	h ^= h >> 31
	return h
}

func joinInto(dst []int32, src []int32) []int32 {
	for len(dst) < len(src) {
		dst = append(dst, 0)
	}
	for i, v := range src {
		if v > dst[i] {
			dst[i] = v
		}
	}
	return dst
}

// endStep closes the running step of goroutines gs.
func (s *Sched) endStep(gs []*G, label uint64) {
	c := make([]int32, len(s.gs))
	for _, g := range gs {
		c = joinInto(c, g.vc)
	}
	for _, t := range s.touched {
		c = joinInto(c, t.c.w)
		if t.write {
			c = joinInto(c, t.c.r)
		}
	}
	h0, h1 := uint64(0x1234567), uint64(0x89abcdef)
	for _, g := range gs {
		g.nstep++
		c[g.ID] = g.nstep
		h0, h1 = mix(h0, uint64(g.ID)<<32|uint64(g.nstep)), mix(h1, uint64(g.nstep)<<32|uint64(g.ID))
	}
	h0, h1 = mix(h0, label), mix(h1, label)
	for i, v := range c {
		if v != 0 {
			h0, h1 = mix(h0, uint64(i)<<32|uint64(v)), mix(h1, uint64(v)<<32|uint64(i))
		}
	}
	for _, g := range gs {
		g.vc = c
	}
	for _, g := range s.spawned {
		if g.vc == nil {
			g.vc = c
		}
	}
	s.spawned = s.spawned[:0]
	for _, t := range s.touched {
		if t.write {
			t.c.w, t.c.r = c, nil
		} else {
			t.c.r = joinInto(append([]int32(nil), t.c.r...), c)
		}
	}
	s.touched = s.touched[:0]
	s.fp[0] += h0
	s.fp[1] += h1
}

// barrier orders everything that happened so far before everything that follows (timer firing and
// quiescence detection depend on the whole state).
func (s *Sched) barrier(kind uint64) {
	var c []int32
	for _, g := range s.gs {
		c = joinInto(c, g.vc)
	}
	for _, t := range s.touched {
		if t.write {
			t.c.w, t.c.r = c, nil
		}
	}
	s.touched = s.touched[:0]
	for _, g := range s.gs {
		g.vc = c
	}
	s.spawned = s.spawned[:0]
	s.epoch++
	s.fp[0] = mix(s.fp[0], s.epoch<<8|kind)
	s.fp[1] = mix(s.fp[1], s.epoch<<8|kind)
}
