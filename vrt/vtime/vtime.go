// Package vtime mirrors the parts of package time that read the clock or create timers, on a virtual clock.
package vtime

import (
	"time"

	"verif.local/vrt"
)

// Base is virtual time zero.
var Base = time.Date(2024, 1, 1, 0, 0, 0, 0, time.UTC)

// Now mirrors time.Now.
func Now() time.Time {
	vrt.CountShim()
	if vrt.Active() || vrt.S != nil {
		return Base.Add(time.Duration(vrt.S.Now))
	}
	return time.Now()
}

// Since mirrors time.Since.
func Since(t time.Time) time.Duration { return Now().Sub(t) }

// Until mirrors time.Until.
func Until(t time.Time) time.Duration { return t.Sub(Now()) }

// After mirrors time.After.
func After(d time.Duration) <-chan time.Time {
	if !vrt.Active() {
		return time.After(d)
	}
	return NewTimer(d).C
}

// Sleep mirrors time.Sleep.
func Sleep(d time.Duration) {
	if !vrt.Active() {
		time.Sleep(d)
		return
	}
	vrt.Recv1(After(d))
}

// Timer mirrors time.Timer.
type Timer struct {
	C    <-chan time.Time
	c    chan time.Time
	stop func() bool
	real *time.Timer
	f    func()
}

// NewTimer mirrors time.NewTimer.
func NewTimer(d time.Duration) *Timer {
	if !vrt.Active() {
		rt := time.NewTimer(d)
		return &Timer{C: rt.C, real: rt}
	}
	t := &Timer{c: make(chan time.Time, 1)}
	t.C = t.c
	t.arm(d)
	return t
}

// AfterFunc mirrors time.AfterFunc.
func AfterFunc(d time.Duration, f func()) *Timer {
	if !vrt.Active() {
		return &Timer{real: time.AfterFunc(d, f)}
	}
	t := &Timer{f: f}
	t.arm(d)
	return t
}

func (t *Timer) arm(d time.Duration) {
	if d < 0 {
		d = 0
	}
	if t.f != nil {
		t.stop = vrt.AddTimer(int64(d), func() { vrt.SpawnFromTimer(t.f) })
		return
	}
	t.stop = vrt.AddTimer(int64(d), func() { vrt.TimerSend(t.c, Now()) })
}

// Stop mirrors (*time.Timer).Stop with Go >= 1.23 semantics.
func (t *Timer) Stop() bool {
	if t.real != nil {
		return t.real.Stop()
	}
	was := t.stop()
	if t.c != nil && vrt.DrainTimer(t.c) {
		was = true
	}
	return was
}

// Reset mirrors (*time.Timer).Reset with Go >= 1.23 semantics.
func (t *Timer) Reset(d time.Duration) bool {
	if t.real != nil {
		return t.real.Reset(d)
	}
	was := t.Stop()
	t.arm(d)
	return was
}

// Ticker mirrors time.Ticker.
type Ticker struct {
	C    <-chan time.Time
	c    chan time.Time
	d    time.Duration
	stop func() bool
	real *time.Ticker
}

// NewTicker mirrors time.NewTicker.
func NewTicker(d time.Duration) *Ticker {
	if !vrt.Active() {
		rt := time.NewTicker(d)
		return &Ticker{C: rt.C, real: rt}
	}
	t := &Ticker{c: make(chan time.Time, 1), d: d}
	t.C = t.c
	t.arm()
	return t
}

func (t *Ticker) arm() {
	t.stop = vrt.AddTimer(int64(t.d), func() { vrt.TimerSend(t.c, Now()); t.arm() })
}

// Stop stops the ticker.
func (t *Ticker) Stop() {
	if t.real != nil {
		t.real.Stop()
		return
	}
	t.stop()
}

// Reset resets the ticker period.
func (t *Ticker) Reset(d time.Duration) {
	if t.real != nil {
		t.real.Reset(d)
		return
	}
	t.stop()
	t.d = d
	t.arm()
}

// Tick mirrors time.Tick.
func Tick(d time.Duration) <-chan time.Time { return NewTicker(d).C }
