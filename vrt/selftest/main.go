// Command selftest checks the checker: toy programs with seeded concurrency bugs must be found at the
// documented preemption bound, and small programs must produce exactly the expected outcome sets.
package main

import (
	"context"
	"fmt"
	"os"
	"sort"
	"strings"
	"time"

	"verif.local/explore"
	"verif.local/vrt"
	"verif.local/vrt/vatomic"
	"verif.local/vrt/vconcurrent"
	"verif.local/vrt/vctx"
	"verif.local/vrt/vsync"
	"verif.local/vrt/vtime"
)

type test struct {
	name     string
	body     func(x *explore.X)
	bound    int
	wantViol bool     // a violation must be found at this bound
	outcomes []string // if set: exactly these outcomes (sorted)
	mayBlock bool
}

func keys(m map[string]int) []string {
	var k []string
	for s := range m {
		k = append(k, s)
	}
	sort.Strings(k)
	return k
}

func main() {
	tests := []test{
		{name: "lost update (read-modify-write without lock) is invisible at bound 0", bound: 0, wantViol: false, body: lostUpdate},
		{name: "lost update is found at bound 1", bound: 1, wantViol: true, body: lostUpdate},
		{name: "locked increment is correct for all schedules", bound: -1, wantViol: false, body: lockedIncrement, outcomes: []string{"2"}},
		{name: "check-then-act on a map under separate critical sections is found at bound 1", bound: 1, wantViol: true, body: checkThenAct},
		{name: "missed signal (flag checked outside the lock) needs two preemptions: invisible at bound 1", bound: 1, wantViol: false, body: missedSignal, mayBlock: true},
		{name: "missed signal: the waiter can sleep forever, found at bound 2", bound: 2, wantViol: true, body: missedSignal, mayBlock: true},
		{name: "correct condition variable use never blocks", bound: 2, wantViol: false, body: goodCond},
		{name: "unbuffered rendez-vous deadlock (two senders, no receiver) is a deadlock in every schedule", bound: 0, wantViol: true, body: rendezvousDeadlock},
		{name: "select with two ready cases explores both", bound: 0, wantViol: false, body: selectBoth, outcomes: []string{"a", "b"}},
		{name: "buffered channel preserves FIFO order", bound: -1, wantViol: false, body: fifo, outcomes: []string{"1,2,3"}},
		{name: "RWMutex: a reader arriving while a writer waits must wait (writer preference)", bound: 2, wantViol: false, body: rwPreference},
		{name: "RWMutex recursive read lock with a writer in between deadlocks", bound: 1, wantViol: true, body: rwRecursive, mayBlock: true},
		{name: "timer versus cancel with different deadlines: the earlier deadline wins in every schedule", bound: 2, wantViol: false, body: timerVsCancel, outcomes: []string{"cancel"}},
		{name: "virtual timer fires only when nothing else is enabled, in deadline order", bound: 0, wantViol: false, body: timerOrder, outcomes: []string{"a@1s,b@2s"}},
		{name: "Once runs its function exactly once under contention", bound: 2, wantViol: false, body: onceTest, outcomes: []string{"1"}},
		{name: "WaitGroup waits for all", bound: 2, wantViol: false, body: wgTest, outcomes: []string{"3"}},
		{name: "atomic operations are scheduling points: a racy flag protocol is found at bound 1", bound: 1, wantViol: true, body: atomicFlag},
		{name: "context cancellation wakes a select on Done", bound: 1, wantViol: false, body: ctxWake, outcomes: []string{"woken"}},
		{name: "environment choice enumerates all alternatives", bound: 0, wantViol: false, body: chooseTest, outcomes: []string{"0", "1", "2"}},
		{name: "independent critical sections (3 goroutines, private mutexes): one outcome, HB pruning collapses the interleavings", bound: -1, wantViol: false, body: independentLockers, outcomes: []string{"6"}},
		{name: "two producers, one consumer, plus independent noise: both delivery orders are seen", bound: -1, wantViol: false, body: producersWithNoise, outcomes: []string{"ab", "ba"}},
		{name: "lost update amid independent noise is still found at bound 1", bound: 1, wantViol: true, body: lostUpdateWithNoise},
		{name: "Broadcast without the lock between the waiter's check and its Wait needs two preemptions: invisible at bound 1", bound: 1, wantViol: false, body: unlockedBroadcast, mayBlock: true},
		{name: "Broadcast without the lock between the waiter's check and its Wait: lost wake-up found at bound 2", bound: 2, wantViol: true, body: unlockedBroadcast, mayBlock: true},
		{name: "context.AfterFunc runs after cancel, never after a successful stop", bound: 2, wantViol: false, body: afterFunc, outcomes: []string{"ran", "stopped"}},
		{name: "lock-free map: load-miss then store by two goroutines is a check-then-act, found at bound 1", bound: 1, wantViol: true, body: trieCheckThenAct},
		{name: "check-then-act amid independent noise: all final values reachable without a bound", bound: -1, wantViol: false, body: raceOutcomesWithNoise, outcomes: []string{"1", "2"}},
	}
	failed := 0
	total := 0
	for _, t := range tests {
		scn := explore.Scenario{Name: t.name, Body: t.body, MainMayBlock: false, AllowLive: false}
		if t.mayBlock {
			scn.MainMayBlock = false
		}
		res := explore.InProcess(&scn, t.bound)
		total += res.Executions
		ok := len(res.EngineErr) == 0 && (len(res.Violations) > 0) == t.wantViol
		if ok && t.outcomes != nil && strings.Join(keys(res.Outcomes), ";") != strings.Join(t.outcomes, ";") {
			ok = false
		}
		status := "ok  "
		if !ok {
			status = "FAIL"
			failed++
		}
		fmt.Printf("%s %-100s bound=%d executions=%d outcomes=%v violations=%d %v\n", status, t.name, t.bound, res.Executions, keys(res.Outcomes), len(res.Violations), res.EngineErr)
		// the same search with happens-before pruning must give the same verdict and, where the search
		// ran to the end (no violation), the same set of outcomes
		scn2 := scn
		scn2.HB = true
		res2 := explore.InProcess(&scn2, t.bound)
		total += res2.Executions
		ok2 := len(res2.EngineErr) == 0 && (len(res2.Violations) > 0) == t.wantViol
		if ok2 && !t.wantViol && strings.Join(keys(res2.Outcomes), ";") != strings.Join(keys(res.Outcomes), ";") {
			ok2 = false
		}
		if res2.Executions > res.Executions {
			ok2 = false
		}
		if !ok2 {
			failed++
			fmt.Printf("FAIL   with HB pruning: executions=%d outcomes=%v violations=%d %v\n", res2.Executions, keys(res2.Outcomes), len(res2.Violations), res2.EngineErr)
		} else if res2.Executions < res.Executions {
			fmt.Printf("       with HB pruning: executions=%d (same verdict and outcomes)\n", res2.Executions)
		}
	}
	fmt.Printf("vrt selftest: %d tests, %d executions, %d failed\n", len(tests), total, failed)
	if failed > 0 {
		os.Exit(1)
	}
}

func lostUpdate(x *explore.X) {
	var v vatomic.Int64
	var wg vsync.WaitGroup
	for i := 0; i < 2; i++ {
		wg.Go(func() {
			cur := v.Load()
			v.Store(cur + 1)
		})
	}
	wg.Wait()
	if v.Load() != 2 {
		x.Failf("lost update: %d", v.Load())
	}
}

func independentLockers(x *explore.X) {
	var mus [3]vsync.Mutex
	var ns [3]int
	var wg vsync.WaitGroup
	for i := 0; i < 3; i++ {
		wg.Go(func() {
			for k := 0; k < 2; k++ {
				mus[i].Lock()
				ns[i]++
				mus[i].Unlock()
			}
		})
	}
	wg.Wait()
	x.Outcome("%d", ns[0]+ns[1]+ns[2])
}

func noise(wg *vsync.WaitGroup) {
	wg.Go(func() {
		var mu vsync.Mutex
		var a vatomic.Int64
		for k := 0; k < 2; k++ {
			mu.Lock()
			a.Add(1)
			mu.Unlock()
		}
	})
}

func producersWithNoise(x *explore.X) {
	ch := make(chan string, 2)
	var wg vsync.WaitGroup
	noise(&wg)
	for _, v := range []string{"a", "b"} {
		wg.Go(func() { vrt.Chan(ch).Send(v) })
	}
	got := vrt.Recv1(ch) + vrt.Recv1(ch)
	wg.Wait()
	x.Outcome("%s", got)
}

func lostUpdateWithNoise(x *explore.X) {
	var v vatomic.Int64
	var wg vsync.WaitGroup
	noise(&wg)
	for i := 0; i < 2; i++ {
		wg.Go(func() {
			cur := v.Load()
			v.Store(cur + 1)
		})
	}
	noise(&wg)
	wg.Wait()
	if v.Load() != 2 {
		x.Failf("lost update: %d", v.Load())
	}
}

func raceOutcomesWithNoise(x *explore.X) {
	var v vatomic.Int64
	var wg vsync.WaitGroup
	noise(&wg)
	for i := 0; i < 2; i++ {
		wg.Go(func() {
			cur := v.Load()
			v.Store(cur + 1)
		})
	}
	wg.Wait()
	x.Outcome("%d", v.Load())
}

func lockedIncrement(x *explore.X) {
	var mu vsync.Mutex
	n := 0
	var wg vsync.WaitGroup
	for i := 0; i < 2; i++ {
		wg.Go(func() { mu.Lock(); n++; mu.Unlock() })
	}
	wg.Wait()
	x.Outcome("%d", n)
	if n != 2 {
		x.Failf("n=%d", n)
	}
}

func checkThenAct(x *explore.X) {
	var mu vsync.Mutex
	m := map[string]int{}
	created := 0
	var wg vsync.WaitGroup
	for i := 0; i < 2; i++ {
		wg.Go(func() {
			mu.Lock()
			_, ok := m["k"]
			mu.Unlock()
			if !ok {
				mu.Lock()
				m["k"] = i
				created++
				mu.Unlock()
			}
		})
	}
	wg.Wait()
	if created != 1 {
		x.Failf("created %d times", created)
	}
}

func missedSignal(x *explore.X) {
	var mu vsync.Mutex
	c := vsync.NewCond(&mu)
	var ready vatomic.Bool
	done := false
	vrt.Go(func() {
		if !ready.Load() { // BUG: flag checked outside the lock
			mu.Lock()
			c.Wait()
			mu.Unlock()
		}
		done = true
	})
	ready.Store(true)
	mu.Lock()
	c.Broadcast()
	mu.Unlock()
	vrt.WaitQuiescent()
	if !done {
		x.Failf("waiter sleeps forever")
	}
}

func goodCond(x *explore.X) {
	var mu vsync.Mutex
	c := vsync.NewCond(&mu)
	ready, done := false, false
	vrt.Go(func() {
		mu.Lock()
		for !ready {
			c.Wait()
		}
		mu.Unlock()
		done = true
	})
	mu.Lock()
	ready = true
	c.Broadcast()
	mu.Unlock()
	vrt.WaitQuiescent()
	if !done {
		x.Failf("waiter sleeps forever")
	}
}

func rendezvousDeadlock(x *explore.X) {
	ch := make(chan int)
	vrt.Go(func() { vrt.Chan(ch).Send(1) })
	vrt.Chan(ch).Send(2)
}

func selectBoth(x *explore.X) {
	a, b := make(chan int, 1), make(chan int, 1)
	vrt.Chan(a).Send(1)
	vrt.Chan(b).Send(1)
	switch vrt.Select(false, vrt.RecvCase((<-chan int)(a)), vrt.RecvCase((<-chan int)(b))) {
	case 0:
		x.Outcome("a")
	case 1:
		x.Outcome("b")
	}
}

func fifo(x *explore.X) {
	ch := make(chan int, 3)
	vrt.Go(func() {
		for i := 1; i <= 3; i++ {
			vrt.Chan(ch).Send(i)
		}
		vrt.Close(ch)
	})
	var got []string
	for {
		v, ok := vrt.Recv2((<-chan int)(ch))
		if !ok {
			break
		}
		got = append(got, fmt.Sprint(v))
	}
	x.Outcome("%s", strings.Join(got, ","))
}

func rwPreference(x *explore.X) {
	var mu vsync.RWMutex
	var order []string
	mu.RLock()
	vrt.Go(func() { mu.Lock(); order = append(order, "W"); mu.Unlock() })
	vrt.WaitQuiescent() // the writer has announced itself and waits for reader 1
	vrt.Go(func() {
		mu.RLock()
		order = append(order, "R2")
		mu.RUnlock()
	})
	vrt.WaitQuiescent() // reader 2 waits behind the writer
	if len(order) != 0 {
		x.Failf("someone got the lock while reader 1 holds it and a writer waits: %v", order)
	}
	mu.RUnlock()
	vrt.WaitQuiescent()
	if len(order) != 2 || order[0] != "W" {
		x.Failf("reader overtook the waiting writer: %v", order)
	}
}

func rwRecursive(x *explore.X) {
	var mu vsync.RWMutex
	done := false
	vrt.Go(func() {
		mu.RLock()
		vrt.Yield()
		mu.RLock() // recursive read lock: deadlocks if a writer queued in between
		mu.RUnlock()
		mu.RUnlock()
		done = true
	})
	mu.Lock()
	mu.Unlock() //nolint:staticcheck
	vrt.WaitQuiescent()
	if !done {
		x.Failf("recursive RLock deadlocked behind a writer")
	}
}

func timerVsCancel(x *explore.X) {
	ctx, cancel := vctx.WithCancel(context.Background())
	t := vtime.NewTimer(2 * time.Second)
	vrt.Go(func() { vtime.Sleep(time.Second); cancel() })
	switch vrt.Select(false, vrt.RecvCase(ctx.Done()), vrt.RecvCase(t.C)) {
	case 0:
		x.Outcome("cancel")
	case 1:
		x.Outcome("timer")
	}
	cancel()
	vrt.WaitQuiescent()
}

func timerOrder(x *explore.X) {
	var got []string
	b := vtime.After(2 * time.Second)
	a := vtime.After(time.Second)
	for i := 0; i < 2; i++ {
		switch vrt.Select(false, vrt.RecvCase(a), vrt.RecvCase(b)) {
		case 0:
			got = append(got, fmt.Sprintf("a@%v", time.Duration(vrt.Now())))
			a = nil
		case 1:
			got = append(got, fmt.Sprintf("b@%v", time.Duration(vrt.Now())))
			b = nil
		}
	}
	x.Outcome("%s", strings.Join(got, ","))
}

func onceTest(x *explore.X) {
	var o vsync.Once
	n := 0
	var wg vsync.WaitGroup
	for i := 0; i < 3; i++ {
		wg.Go(func() { o.Do(func() { vrt.Yield(); n++ }) })
	}
	wg.Wait()
	x.Outcome("%d", n)
}

func wgTest(x *explore.X) {
	var wg vsync.WaitGroup
	var n vatomic.Int64
	for i := 0; i < 3; i++ {
		wg.Go(func() { n.Add(1) })
	}
	wg.Wait()
	x.Outcome("%d", n.Load())
}

func atomicFlag(x *explore.X) {
	// broken mutual exclusion: test-then-set with two separate atomic operations
	var flag vatomic.Bool
	inside := 0
	maxInside := 0
	var wg vsync.WaitGroup
	for i := 0; i < 2; i++ {
		wg.Go(func() {
			if !flag.Load() {
				flag.Store(true)
				inside++
				if inside > maxInside {
					maxInside = inside
				}
				vrt.Yield()
				inside--
				flag.Store(false)
			}
		})
	}
	wg.Wait()
	if maxInside > 1 {
		x.Failf("two goroutines inside the critical section")
	}
}

func ctxWake(x *explore.X) {
	ctx, cancel := vctx.WithCancel(context.Background())
	woken := false
	vrt.Go(func() { vrt.Recv1(ctx.Done()); woken = true })
	vrt.Yield()
	cancel()
	vrt.WaitQuiescent()
	if woken {
		x.Outcome("woken")
	} else {
		x.Failf("not woken")
	}
}

func unlockedBroadcast(x *explore.X) {
	var mu vsync.Mutex
	c := vsync.NewCond(&mu)
	var ready vatomic.Bool
	done := false
	vrt.Go(func() {
		mu.Lock()
		for !ready.Load() {
			c.Wait()
		}
		mu.Unlock()
		done = true
	})
	ready.Store(true)
	c.Broadcast() // BUG: not under the lock, can fall between the waiter's check and its Wait
	vrt.WaitQuiescent()
	if !done {
		x.Failf("waiter sleeps forever")
	}
}

func afterFunc(x *explore.X) {
	ctx, cancel := vctx.WithCancel(context.Background())
	ran := false
	stop := vctx.AfterFunc(ctx, func() { ran = true })
	stopped := false
	if vrt.Choose(2, "stop first") == 1 {
		stopped = stop()
	}
	cancel()
	vrt.WaitQuiescent()
	switch {
	case stopped && ran:
		x.Failf("the function ran after a successful stop")
	case !stopped && !ran:
		x.Failf("the function did not run after cancel")
	case ran:
		x.Outcome("ran")
	default:
		x.Outcome("stopped")
	}
}

func trieCheckThenAct(x *explore.X) {
	m := vconcurrent.NewHashTrieMap[string, int]()
	stores := 0
	for i := 1; i <= 2; i++ {
		vrt.Go(func() {
			if _, ok := m.Load("k"); !ok {
				m.Store("k", i)
				stores++
			}
		})
	}
	vrt.WaitQuiescent()
	if stores != 1 {
		x.Failf("%d stores for one key", stores)
	}
}

func chooseTest(x *explore.X) {
	x.Outcome("%d", vrt.Choose(3, "c"))
}
