// Package vsync mirrors the parts of package sync the code under test uses, on top of vrt.
package vsync

import (
	"sync"

	"verif.local/vrt"
)

// Locker is sync.Locker.
type Locker = sync.Locker

// Mutex mirrors sync.Mutex.
type Mutex struct {
	st   vrt.MutexState
	real sync.Mutex
}

// Lock locks m.
func (m *Mutex) Lock() {
	vrt.CountShim() // (unsynchronised counter: only "zero or not" matters)
	if vrt.Active() {
		m.st.Lock()
	} else {
		m.real.Lock()
	}
}

// TryLock tries to lock m.
func (m *Mutex) TryLock() bool {
	if vrt.Active() {
		return m.st.TryLock()
	}
	return m.real.TryLock()
}

// Unlock unlocks m.
func (m *Mutex) Unlock() {
	if vrt.Active() {
		m.st.Unlock()
	} else {
		m.real.Unlock()
	}
}

// RWMutex mirrors sync.RWMutex.
type RWMutex struct {
	st   vrt.RWMutexState
	real sync.RWMutex
}

// Lock write-locks m.
func (m *RWMutex) Lock() {
	if vrt.Active() {
		m.st.Lock()
	} else {
		m.real.Lock()
	}
}

// Unlock write-unlocks m.
func (m *RWMutex) Unlock() {
	if vrt.Active() {
		m.st.Unlock()
	} else {
		m.real.Unlock()
	}
}

// RLock read-locks m.
func (m *RWMutex) RLock() {
	if vrt.Active() {
		m.st.RLock()
	} else {
		m.real.RLock()
	}
}

// RUnlock read-unlocks m.
func (m *RWMutex) RUnlock() {
	if vrt.Active() {
		m.st.RUnlock()
	} else {
		m.real.RUnlock()
	}
}

type rlocker RWMutex

func (r *rlocker) Lock()   { (*RWMutex)(r).RLock() }
func (r *rlocker) Unlock() { (*RWMutex)(r).RUnlock() }

// RLocker returns a Locker for the read side.
func (m *RWMutex) RLocker() Locker { return (*rlocker)(m) }

// Cond mirrors sync.Cond (L must be *Mutex or *RWMutex under the scheduler).
type Cond struct {
	L    Locker
	st   vrt.CondState
	real *sync.Cond
}

// NewCond returns a new Cond.
func NewCond(l Locker) *Cond { return &Cond{L: l, real: sync.NewCond(l)} }

// Wait waits.
func (c *Cond) Wait() {
	if !vrt.Active() {
		c.real.Wait()
		return
	}
	switch l := c.L.(type) {
	case *Mutex:
		c.st.Wait(&l.st, l.Unlock)
	case *RWMutex:
		c.st.Wait(&l.st, l.Unlock)
	default:
		panic("vsync.Cond: unsupported Locker")
	}
}

// Broadcast wakes all waiters.
func (c *Cond) Broadcast() {
	if vrt.Active() {
		c.st.Broadcast()
	} else {
		c.real.Broadcast()
	}
}

// Signal wakes one waiter.
func (c *Cond) Signal() {
	if vrt.Active() {
		c.st.Signal()
	} else {
		c.real.Signal()
	}
}

// WaitGroup mirrors sync.WaitGroup.
type WaitGroup struct {
	st   vrt.WGState
	real sync.WaitGroup
}

// Add adds n.
func (w *WaitGroup) Add(n int) {
	if vrt.Active() {
		w.st.Add(n)
	} else {
		w.real.Add(n)
	}
}

// Done decrements.
func (w *WaitGroup) Done() { w.Add(-1) }

// Wait waits for zero.
func (w *WaitGroup) Wait() {
	if vrt.Active() {
		w.st.Wait()
	} else {
		w.real.Wait()
	}
}

// Go runs f in a goroutine tracked by w.
func (w *WaitGroup) Go(f func()) {
	w.Add(1)
	vrt.Go(func() {
		defer w.Done()
		f()
	})
}

// Once mirrors sync.Once.
type Once struct {
	st   vrt.OnceState
	real sync.Once
}

// Do runs f once.
func (o *Once) Do(f func()) {
	if vrt.Active() {
		o.st.Do(f)
	} else {
		o.real.Do(f)
	}
}

// OnceFunc mirrors sync.OnceFunc.
func OnceFunc(f func()) func() {
	var o Once
	return func() { o.Do(f) }
}

// OnceValue mirrors sync.OnceValue.
func OnceValue[T any](f func() T) func() T {
	var o Once
	var v T
	return func() T { o.Do(func() { v = f() }); return v }
}

// OnceValues mirrors sync.OnceValues.
func OnceValues[T1, T2 any](f func() (T1, T2)) func() (T1, T2) {
	var o Once
	var v1 T1
	var v2 T2
	return func() (T1, T2) { o.Do(func() { v1, v2 = f() }); return v1, v2 }
}

// Pool mirrors sync.Pool. Under the scheduler it always reuses, last in first out: handing a Put item to
// the very next Get is a legal behaviour of sync.Pool and the hostile one (code that keeps using an item
// after Put, or hands out memory it has returned to the pool, shows at once). Passthrough: the real pool.
type Pool struct {
	New   func() any
	items []any
	real  sync.Pool
}

// Get returns the most recently Put item, or a new one.
func (p *Pool) Get() any {
	if !vrt.Active() {
		if v := p.real.Get(); v != nil {
			return v
		}
		if p.New != nil {
			return p.New()
		}
		return nil
	}
	if n := len(p.items); n > 0 {
		v := p.items[n-1]
		p.items = p.items[:n-1]
		return v
	}
	if p.New != nil {
		return p.New()
	}
	return nil
}

// Put returns an item to the pool.
func (p *Pool) Put(v any) {
	if !vrt.Active() {
		p.real.Put(v)
		return
	}
	p.items = append(p.items, v)
}

// Map is sync.Map (operations are atomic steps without scheduling points).
type Map = sync.Map
