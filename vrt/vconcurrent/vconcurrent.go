// Package vconcurrent mirrors github.com/siderolabs/gen/concurrent with a scheduling point before every
// operation of the lock-free map (the map's operations are synchronisation operations of the code under test:
// a load that misses followed by a load-or-store is a check-then-act window like any other).
package vconcurrent

import (
	"unsafe"

	"github.com/siderolabs/gen/concurrent"

	"verif.local/vrt"
)

// HashTrieMap mirrors concurrent.HashTrieMap.
type HashTrieMap[K, V comparable] struct {
	m *concurrent.HashTrieMap[K, V]
}

// NewHashTrieMap mirrors concurrent.NewHashTrieMap.
func NewHashTrieMap[K, V comparable]() *HashTrieMap[K, V] {
	return &HashTrieMap[K, V]{m: concurrent.NewHashTrieMap[K, V]()}
}

func (h *HashTrieMap[K, V]) pt(write bool) {
	vrt.CountShim()
	vrt.Point()
	vrt.TouchAddr(unsafe.Pointer(h), write)
}

func (h *HashTrieMap[K, V]) Load(key K) (V, bool) { h.pt(false); return h.m.Load(key) }

func (h *HashTrieMap[K, V]) LoadOrStore(key K, value V) (V, bool) {
	h.pt(true)
	return h.m.LoadOrStore(key, value)
}

func (h *HashTrieMap[K, V]) Store(key K, value V) { h.pt(true); h.m.Store(key, value) }

func (h *HashTrieMap[K, V]) Swap(key K, value V) (V, bool) { h.pt(true); return h.m.Swap(key, value) }

func (h *HashTrieMap[K, V]) CompareAndSwap(key K, o, n V) bool {
	h.pt(true)
	return h.m.CompareAndSwap(key, o, n)
}

func (h *HashTrieMap[K, V]) LoadAndDelete(key K) (V, bool) { h.pt(true); return h.m.LoadAndDelete(key) }

func (h *HashTrieMap[K, V]) Delete(key K) { h.pt(true); h.m.Delete(key) }

func (h *HashTrieMap[K, V]) CompareAndDelete(key K, o V) bool {
	h.pt(true)
	return h.m.CompareAndDelete(key, o)
}

func (h *HashTrieMap[K, V]) All() func(yield func(K, V) bool) { h.pt(false); return h.m.All() }

func (h *HashTrieMap[K, V]) Range(yield func(K, V) bool) { h.pt(false); h.m.Range(yield) }

func (h *HashTrieMap[K, V]) Clear() { h.pt(true); h.m.Clear() }
