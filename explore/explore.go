// Package explore is the stateless depth-first explorer (iterative preemption bounding) over the
// schedules and environment choices of a scenario that runs on the vrt scheduler, with work splitting
// over worker processes, replay files, known-findings handling and evidence output.
package explore

import (
	"bufio"
	"encoding/json"
	"flag"
	"fmt"
	"os"
	"os/exec"
	"path/filepath"
	"runtime"
	"sort"
	"strconv"
	"strings"
	"sync"
	"sync/atomic"
	"time"

	"verif.local/vrt"
)

// X is the per-execution context handed to a scenario body.
type X struct {
	outcome []string
	viols   []Violation
	logs    []string
	trace   bool
	scn     *Scenario
	counts  map[string]int
	samples []any
}

// Add adds n to a named coverage counter (sequential scenarios report states / transitions /
// evaluations / distinct_nontrivial this way).
func (x *X) Add(name string, n int) {
	if x.counts == nil {
		x.counts = map[string]int{}
	}
	x.counts[name] += n
}

// Sample records an example case for the evidence file (at most a few are kept).
func (x *X) Sample(v any) {
	if len(x.samples) < 3 {
		x.samples = append(x.samples, v)
	}
}

// Violation is one oracle failure.
type Violation struct {
	Key string `json:"key"` // stable identifier of the failing input / call site (for known findings)
	Msg string `json:"msg"`
}

// Outcome appends to the execution's outcome signature (used to count distinct outcomes).
func (x *X) Outcome(format string, a ...any) {
	vrt.TouchKey("explore.X", true)
	x.outcome = append(x.outcome, fmt.Sprintf(format, a...))
}

// Failf records a violation with the scenario name as key.
func (x *X) Failf(format string, a ...any) {
	vrt.TouchKey("explore.X", true)
	x.viols = append(x.viols, Violation{Key: x.scn.Name, Msg: fmt.Sprintf(format, a...)})
}

// FailKey records a violation with an explicit key.
func (x *X) FailKey(key, format string, a ...any) {
	vrt.TouchKey("explore.X", true)
	x.viols = append(x.viols, Violation{Key: key, Msg: fmt.Sprintf(format, a...)})
}

// Logf records a note in the human-readable trace (kept only when tracing).
func (x *X) Logf(format string, a ...any) {
	if x.trace {
		x.logs = append(x.logs, fmt.Sprintf(format, a...))
	}
}

// Failed reports whether a violation was recorded.
func (x *X) Failed() bool { vrt.TouchKey("explore.X", false); return len(x.viols) > 0 }

// Tracing reports whether this execution keeps a trace.
func (x *X) Tracing() bool { return x.trace }

// Scenario is one closed program to explore.
type Scenario struct {
	Name         string
	Desc         string
	Body         func(x *X)
	Bounds       []int // preemption bounds to run in order; -1 = unbounded; default {0,1,2}
	AllowLive    bool  // leftover goroutines (other than main) at the end are not a violation
	AllowPanics  bool  // panics in managed goroutines are not a violation by themselves
	MainMayBlock bool  // main still blocked at the end is not a violation
	RelPoints    bool
	MaxSteps     int
	MaxExecs     int  // per-bound execution budget for this scenario (0 = default); exceeding it caps the scenario
	Sequential   bool // no scheduler: Body is run once, directly (engine B/D style scenario)
	// HB: prune decision nodes whose happens-before state fingerprint (vrt.Choice.Key) was already expanded
	// with at most the same number of preemptions spent. Requires that goroutines of the scenario share state
	// only through instrumented synchronisation objects or vrt.TouchKey-declared harness state.
	HB bool
}

// Config of a check run.
type Config struct {
	Property  string
	Level     string // evidence level
	Rule      string // evidence rule text
	Assume    []string
	Extra     map[string]any
	Technique string
	// RequireShims: also for sequential-only checks, fail (exit 2) when no synchronisation operation of
	// instrumented code was observed at all (overlay not applied).
	RequireShims bool
}

type item struct {
	Scn    int   `json:"s"`
	Bound  int   `json:"b"`
	Prefix []int `json:"p"`
	// Round: unsplit (happens-before) scenarios are served in time slices; what a slice leaves over comes
	// back one round later, so every scenario gets its first slice before any gets a second one
	Round int `json:"r,omitempty"`
	// Stack: the whole unexplored DFS stack of an unsplit scenario (instead of Prefix)
	Stack [][]int `json:"k,omitempty"`
	// Owner: worker (1-based) that holds the scenario's happens-before cache; its later slices go back to the
	// same process (0 = anybody). Besides keeping the cache this avoids replaying prefixes in another
	// process (observed once: a flavour whose behaviour differed between processes, not within one)
	Owner int `json:"-"`
}

type vrec struct {
	Violation
	Scn     string   `json:"scenario"`
	Bound   int      `json:"bound"`
	Choices []int    `json:"choices"`
	Trace   []string `json:"trace,omitempty"`
	Logs    []string `json:"logs,omitempty"`
	Repro   int      `json:"reproduced"`
}

type stats struct {
	Execs      int            `json:"e"`
	Steps      int            `json:"t"`
	Nodes      int            `json:"n"`
	NonDefault int            `json:"nd"`
	Pruned     int            `json:"pr"`
	MaxChoices int            `json:"mc"`
	MaxGs      int            `json:"mg"`
	Outcomes   map[string]int `json:"o"`
	Viols      []vrec         `json:"v"`
	EngineErr  []string       `json:"err"`
	Rest       [][]int        `json:"rest"`
	Counts     map[string]int `json:"c,omitempty"`
	Samples    []any          `json:"s,omitempty"`
	ShimOps    int64          `json:"so,omitempty"`
}

func (a *stats) merge(b *stats) {
	a.Execs += b.Execs
	a.Steps += b.Steps
	a.Nodes += b.Nodes
	a.NonDefault += b.NonDefault
	a.Pruned += b.Pruned
	if b.MaxChoices > a.MaxChoices {
		a.MaxChoices = b.MaxChoices
	}
	if b.MaxGs > a.MaxGs {
		a.MaxGs = b.MaxGs
	}
	if a.Outcomes == nil {
		a.Outcomes = map[string]int{}
	}
	for k, v := range b.Outcomes {
		a.Outcomes[k] += v
	}
	for _, v := range b.Viols {
		if len(a.Viols) < 20 {
			a.Viols = append(a.Viols, v)
		}
	}
	a.EngineErr = append(a.EngineErr, b.EngineErr...)
	a.ShimOps += b.ShimOps
	for k, v := range b.Counts {
		if a.Counts == nil {
			a.Counts = map[string]int{}
		}
		a.Counts[k] += v
	}
	for _, s := range b.Samples {
		if len(a.Samples) < 4 {
			a.Samples = append(a.Samples, s)
		}
	}
}

// runSeq runs a sequential scenario once, directly.
func runSeq(scn *Scenario, trace bool) (*X, *stats) {
	x := &X{scn: scn, trace: trace}
	func() {
		defer func() {
			if r := recover(); r != nil {
				buf := make([]byte, 4096)
				buf = buf[:runtime.Stack(buf, false)]
				x.viols = append(x.viols, Violation{Key: scn.Name + "/panic", Msg: fmt.Sprintf("panic: %v\n%s", r, buf)})
			}
		}()
		scn.Body(x)
	}()
	st := &stats{Outcomes: map[string]int{}, Execs: 1, Counts: x.counts, Samples: x.samples}
	st.Outcomes[strings.Join(x.outcome, "|")]++
	seen := map[string]bool{}
	for _, v := range x.viols {
		if seen[v.Key] {
			continue
		}
		seen[v.Key] = true
		st.Viols = append(st.Viols, vrec{Violation: v, Scn: scn.Name, Repro: 5})
	}
	return x, st
}

// runOne executes one schedule of scn.
func runOne(scn *Scenario, prefix []int, trace bool) (*X, vrt.Result) {
	x := &X{scn: scn, trace: trace}
	res := vrt.Run(prefix, vrt.Options{KeepTrace: trace, RelPoints: scn.RelPoints, MaxSteps: scn.MaxSteps, HB: scn.HB && !noHB}, func() { scn.Body(x) })
	if len(res.Panics) > 0 && !scn.AllowPanics {
		for _, p := range res.Panics {
			first := p
			if i := strings.Index(p, "\n"); i > 0 {
				first = p[:i]
			}
			x.viols = append(x.viols, Violation{Key: scn.Name + "/panic", Msg: "panic (process would crash): " + first + "\n" + p})
		}
	}
	if res.Truncated {
		x.viols = append(x.viols, Violation{Key: scn.Name + "/steplimit", Msg: "step limit reached (livelock?)"})
	}
	mainLive := false
	others := 0
	for _, l := range res.Live {
		if strings.HasPrefix(l, "g0(") {
			mainLive = true
		} else {
			others++
		}
	}
	if mainLive && !scn.MainMayBlock && len(x.viols) == 0 {
		x.viols = append(x.viols, Violation{Key: scn.Name + "/deadlock", Msg: fmt.Sprintf("deadlock: scenario main is blocked with nothing enabled; live=%v", res.Live)})
	}
	if others > 0 && !mainLive && !scn.AllowLive && len(x.viols) == 0 {
		x.viols = append(x.viols, Violation{Key: scn.Name + "/leak", Msg: fmt.Sprintf("goroutines still alive at the end: %v", res.Live)})
	}
	return x, res
}

var defaultHash = map[string]uint64{}

// noHB switches happens-before pruning off globally (VERIF_HB=0): used to cross-validate the pruned search
// against the plain one.
var noHB = os.Getenv("VERIF_HB") == "0"

// hbCache: expanded states of the (scenario, bound) being explored by this worker process. Value = the
// smallest number of preemptions with which the state was expanded.
var hbCache struct {
	scn   *Scenario
	bound int
	m     map[[2]uint64]int16
}

const hbCacheMax = 6 << 20

func picks(cs []vrt.Choice) []int {
	p := make([]int, len(cs))
	for i, c := range cs {
		p[i] = c.Pick
	}
	return p
}

// exploreItem explores the subtree rooted at prefix (the execution of prefix itself included) until
// done, budget or deadline; unexplored work is returned in st.Rest.
func exploreItem(scn *Scenario, bound int, prefix []int, budget int, deadline time.Time, resume ...[][]int) *stats {
	st := &stats{Outcomes: map[string]int{}}
	stack := [][]int{prefix}
	if len(resume) > 0 && len(resume[0]) > 0 {
		stack = resume[0]
	}
	if os.Getenv("VERIF_VERBOSE") == "2" {
		fmt.Fprintf(os.Stderr, "      worker: %s bound=%d start stack=%d budget=%d\n", scn.Name, bound, len(stack), budget)
		defer func() { fmt.Fprintf(os.Stderr, "      worker: %s bound=%d end execs=%d rest=%d\n", scn.Name, bound, st.Execs, len(st.Rest)) }()
	}
	first := true
	for len(stack) > 0 {
		if st.Execs >= budget || (st.Execs%64 == 0 && time.Now().After(deadline)) || len(st.Viols) >= 3 {
			st.Rest = stack
			return st
		}
		p := stack[len(stack)-1]
		stack = stack[:len(stack)-1]
		x, res := runOne(scn, p, false)
		if res.Diverged != "" {
			st.EngineErr = append(st.EngineErr, fmt.Sprintf("%s: %s (prefix %v)", scn.Name, res.Diverged, p))
			return st
		}
		st.Execs++
		st.Steps += res.Steps
		if os.Getenv("VERIF_SELFCHECK") != "" {
			// debugging aid: behaviour must not depend on what ran before in this process
			if dflt, ok := defaultHash[scn.Name]; !ok {
				_, d := runOne(scn, nil, false)
				defaultHash[scn.Name] = d.Hash
			} else if _, d := runOne(scn, nil, false); d.Hash != dflt {
				st.EngineErr = append(st.EngineErr, fmt.Sprintf("%s: history-dependent behaviour: after schedule %v (execution %d of this item) the default schedule gives hash %x, it gave %x at first", scn.Name, picks(res.Choices), st.Execs, d.Hash, dflt))
				return st
			}
			_, again := runOne(scn, picks(res.Choices), false)
			if again.Hash != res.Hash || again.Steps != res.Steps {
				st.EngineErr = append(st.EngineErr, fmt.Sprintf("%s: history-dependent behaviour: schedule %v gave hash %x/%d steps, immediately again %x/%d steps", scn.Name, picks(res.Choices), res.Hash, res.Steps, again.Hash, again.Steps))
				return st
			}
		}
		if len(res.Choices) > st.MaxChoices {
			st.MaxChoices = len(res.Choices)
		}
		if res.Goroutines > st.MaxGs {
			st.MaxGs = res.Goroutines
		}
		nd := false
		for _, c := range res.Choices {
			if c.Pick != 0 {
				nd = true
				break
			}
		}
		if nd {
			st.NonDefault++
		}
		st.Outcomes[strings.Join(x.outcome, "|")]++
		if first {
			// determinism self-check: the same full schedule twice must give the same trace hash
			first = false
			_, res2 := runOne(scn, picks(res.Choices), false)
			if res2.Hash != res.Hash || res2.Steps != res.Steps {
				st.EngineErr = append(st.EngineErr, fmt.Sprintf("%s: nondeterministic replay of %v (hash %x vs %x, steps %d vs %d)", scn.Name, picks(res.Choices), res.Hash, res2.Hash, res.Steps, res2.Steps))
				return st
			}
		}
		if len(x.viols) > 0 {
			full := picks(res.Choices)
			v := vrec{Violation: x.viols[0], Scn: scn.Name, Bound: bound, Choices: full}
			for i := 0; i < 5; i++ {
				x2, r2 := runOne(scn, full, i == 0)
				if len(x2.viols) > 0 && x2.viols[0].Key == v.Key && r2.Hash == res.Hash {
					v.Repro++
				}
				if i == 0 {
					v.Trace, v.Logs = r2.Trace, x2.logs
				}
			}
			st.Viols = append(st.Viols, v)
		}
		pre := 0
		var kids, envKids [][]int
		useHB := scn.HB && !noHB
		if useHB && (hbCache.scn != scn || hbCache.bound != bound || hbCache.m == nil) {
			hbCache.scn, hbCache.bound, hbCache.m = scn, bound, map[[2]uint64]int16{}
		}
		for i, c := range res.Choices {
			if i >= len(p) {
				if useHB {
					// a state already expanded with no more preemptions spent: everything below it (the rest
					// of this execution included) is a linearisation of something explored from there
					if old, ok := hbCache.m[c.Key]; ok && int(old) <= pre {
						st.Pruned++
						break
					}
					if len(hbCache.m) < hbCacheMax {
						hbCache.m[c.Key] = int16(pre)
					}
				}
				st.Nodes++
				for alt := 1; alt < c.N; alt++ {
					cost := pre
					if c.CurOK && alt >= c.NCur {
						cost++
					}
					if bound >= 0 && cost > bound {
						continue
					}
					np := make([]int, i+1)
					for j := 0; j < i; j++ {
						np[j] = res.Choices[j].Pick
					}
					np[i] = alt
					if alt < 64 && c.EnvMask&(1<<uint(alt)) != 0 {
						envKids = append(envKids, np)
					} else {
						kids = append(kids, np)
					}
				}
			}
			if c.Preempted {
				pre++
			}
		}
		// push so that the deepest alternative is explored first (classic DFS order); alternatives of
		// environment choices (faults, third parties, transport behaviour) go on top: under a cap they are
		// worth more than one more permutation of the same environment
		stack = append(stack, kids...)
		stack = append(stack, envKids...)
	}
	return st
}

// ---------------------------------------------------------------- worker protocol

type wreq struct {
	Item     item  `json:"item"`
	Budget   int   `json:"budget"`
	Deadline int64 `json:"deadline"` // unix ms
}

func workerLoop(scns []Scenario) {
	runtime.GOMAXPROCS(1)
	in := bufio.NewReaderSize(os.Stdin, 1<<20)
	out := bufio.NewWriter(os.Stdout)
	warmed := map[int]bool{}
	for {
		line, err := in.ReadBytes('\n')
		if len(line) == 0 && err != nil {
			return
		}
		var rq wreq
		if e := json.Unmarshal(line, &rq); e != nil {
			fmt.Fprintln(os.Stderr, "worker: bad request:", e)
			os.Exit(2)
		}
		scn := &scns[rq.Item.Scn]
		var st *stats
		if scn.Sequential {
			old := runtime.GOMAXPROCS(runtime.NumCPU())
			before := atomic.LoadInt64(&vrt.ShimOps)
			_, st = runSeq(scn, false)
			st.ShimOps = atomic.LoadInt64(&vrt.ShimOps) - before
			runtime.GOMAXPROCS(old)
		} else {
			if !warmed[rq.Item.Scn] {
				warmed[rq.Item.Scn] = true
				runOne(scn, nil, false)
			}
			before := atomic.LoadInt64(&vrt.ShimOps)
			st = exploreItem(scn, rq.Item.Bound, rq.Item.Prefix, rq.Budget, time.UnixMilli(rq.Deadline), rq.Item.Stack)
			st.ShimOps = atomic.LoadInt64(&vrt.ShimOps) - before
		}
		b, _ := json.Marshal(st)
		out.Write(b)
		out.WriteByte('\n')
		out.Flush()
		if err != nil {
			return
		}
	}
}

type worker struct {
	cmd *exec.Cmd
	in  *bufio.Writer
	out *bufio.Reader
}

func startWorker() (*worker, error) {
	cmd := exec.Command(os.Args[0], append([]string{"--worker"}, passArgs...)...)
	cmd.Stderr = os.Stderr
	cmd.Env = append(os.Environ(), "GOMAXPROCS=1", "GOGC=200")
	ip, err := cmd.StdinPipe()
	if err != nil {
		return nil, err
	}
	op, err := cmd.StdoutPipe()
	if err != nil {
		return nil, err
	}
	if err := cmd.Start(); err != nil {
		return nil, err
	}
	return &worker{cmd: cmd, in: bufio.NewWriter(ip), out: bufio.NewReaderSize(op, 1<<20)}, nil
}

var passArgs []string

// ---------------------------------------------------------------- known findings

type finding struct {
	Property string `json:"property"`
	Key      string `json:"key"`
	Status   string `json:"status"` // "open" or "fixed:<commit>"
	What     string `json:"what"`
}

func loadFindings(root string) []finding {
	b, err := os.ReadFile(filepath.Join(root, "known_findings.json"))
	if err != nil {
		return nil
	}
	var f struct {
		Findings []finding `json:"findings"`
	}
	if err := json.Unmarshal(b, &f); err != nil {
		fmt.Fprintln(os.Stderr, "ERROR: known_findings.json:", err)
		os.Exit(2)
	}
	return f.Findings
}

// ---------------------------------------------------------------- main entry

// Root returns the /verif root (VERIF_ROOT or the directory above the binary's .build).
func Root() string {
	if r := os.Getenv("VERIF_ROOT"); r != "" {
		return r
	}
	return "/verif"
}

// Main is the entry point of a harness binary.
func Main(cfg Config, build func(tier string) []Scenario) {
	tier := flag.String("tier", envOr("VERIF_TIER", "quick"), "quick|thorough")
	isWorker := flag.Bool("worker", false, "internal: worker mode")
	replay := flag.String("replay", "", "replay file")
	only := flag.String("only", "", "run only scenarios whose name contains this substring")
	nproc := flag.Int("j", runtime.NumCPU(), "worker processes")
	deadlineS := flag.Int("deadline", 0, "internal deadline in seconds (0 = tier default)")
	list := flag.Bool("list", false, "list scenarios")
	noEvidence := flag.Bool("no-evidence", false, "do not write the evidence file")
	flag.Parse()
	passArgs = []string{"--tier", *tier}
	scns := build(*tier)
	if *isWorker {
		workerLoop(scns)
		return
	}
	if *list {
		for _, s := range scns {
			fmt.Println(s.Name, "-", s.Desc)
		}
		return
	}
	if *replay != "" {
		os.Exit(doReplay(cfg, scns, *replay))
	}
	if *deadlineS == 0 {
		*deadlineS = 240
		if *tier == "thorough" {
			*deadlineS = 1500
		}
	}
	seed, _ := strconv.Atoi(os.Getenv("VERIF_SEED"))
	os.Exit(run(cfg, scns, *tier, *only, *nproc, time.Duration(*deadlineS)*time.Second, seed, !*noEvidence))
}

func envOr(k, d string) string {
	if v := os.Getenv(k); v != "" {
		return v
	}
	return d
}

type scnReport struct {
	Name       string         `json:"name"`
	Desc       string         `json:"desc,omitempty"`
	Bounds     []int          `json:"bounds_completed"`
	Execs      int            `json:"executions"`
	Steps      int            `json:"transitions"`
	Nodes      int            `json:"decision_nodes"`
	Outcomes   int            `json:"distinct_outcomes"`
	Capped     bool           `json:"capped,omitempty"`
	MaxGs      int            `json:"max_goroutines"`
	OutcomeTop map[string]int `json:"outcome_sample,omitempty"`
	HBPruned   int            `json:"hb_pruned_nodes,omitempty"`
	HB         bool           `json:"hb_reduction,omitempty"`
}

func run(cfg Config, scns []Scenario, tier, only string, nproc int, limit time.Duration, seed int, writeEv bool) int {
	start := time.Now()
	deadline := start.Add(limit)
	root := Root()
	findings := loadFindings(root)

	// warm-up: run every scenario once on the default schedule so that lazily initialised globals
	// (sync.Once values, registries) are in their steady state before anything is counted.
	var sel []int
	for i := range scns {
		if only == "" || strings.Contains(scns[i].Name, only) {
			sel = append(sel, i)
		}
	}
	if len(sel) == 0 {
		fmt.Println("ERROR: no scenarios selected")
		return 2
	}

	total := &stats{Outcomes: map[string]int{}}
	reports := make([]*scnReport, len(scns))
	perScn := make([]*stats, len(scns))
	for _, i := range sel {
		reports[i] = &scnReport{Name: scns[i].Name, Desc: scns[i].Desc}
		perScn[i] = &stats{Outcomes: map[string]int{}}
	}

	conc := sel
	var engineErrs []string
	capped := false
	if len(conc) > 0 {
		type job struct {
			it item
		}
		var mu sync.Mutex
		cond := sync.NewCond(&mu)
		var queue []item
		inflight := 0
		stopScn := map[int]bool{}
		cappedScn := map[int]bool{}
		defaultMax := 1500000
		if tier == "thorough" {
			defaultMax = 20000000
		}
		for _, i := range conc {
			if scns[i].MaxExecs == 0 {
				scns[i].MaxExecs = defaultMax
			}
			if v, err := strconv.Atoi(os.Getenv("VERIF_MAXEXECS")); err == nil && v > 0 {
				scns[i].MaxExecs = v // experiments only
			}
		}
		curBound := map[int]int{} // index into Bounds
		pendingPerScn := map[int]int{}
		for _, i := range conc {
			if scns[i].Sequential {
				scns[i].Bounds = []int{0}
			}
			if len(scns[i].Bounds) == 0 {
				scns[i].Bounds = []int{0, 1, 2}
			}
			queue = append(queue, item{Scn: i, Bound: scns[i].Bounds[0]})
			pendingPerScn[i] = 1
		}
		if nproc > len(queue)*4 && tier == "quick" && len(queue) < 4 {
			// still use all workers: work splitting will feed them
		}
		var wg sync.WaitGroup
		budget := 4000
		slice := 15 * time.Second
		if tier == "thorough" {
			slice = 90 * time.Second
		}
		if v, err := strconv.Atoi(os.Getenv("VERIF_SLICE_MS")); err == nil && v > 0 {
			slice = time.Duration(v) * time.Millisecond // experiments only
		}
		for w := 0; w < nproc; w++ {
			wk, err := startWorker()
			if err != nil {
				fmt.Println("ERROR: cannot start worker:", err)
				return 2
			}
			wg.Add(1)
			go func(wk *worker, me int) {
				defer wg.Done()
				defer func() {
					wk.in.Flush()
					wk.cmd.Process.Kill()
					wk.cmd.Wait()
					// whatever this worker still owned is anybody's now
					mu.Lock()
					for qi := range queue {
						if queue[qi].Owner == me {
							queue[qi].Owner = 0
						}
					}
					mu.Unlock()
					cond.Broadcast()
				}()
				for {
					mu.Lock()
					// take the most recently added item of the lowest-numbered scenario among those this worker
					// may take (scenarios finish in order; deep subtrees first keeps the queue small)
					best := -1
					for {
						for qi := len(queue) - 1; qi >= 0; qi-- {
							if queue[qi].Owner != 0 && queue[qi].Owner != me {
								continue
							}
							if best < 0 || queue[qi].Round < queue[best].Round || queue[qi].Round == queue[best].Round && queue[qi].Scn < queue[best].Scn {
								best = qi
							}
						}
						if best >= 0 || (len(queue) == 0 && inflight == 0) {
							break
						}
						cond.Wait()
					}
					if best < 0 {
						mu.Unlock()
						cond.Broadcast()
						return
					}
					it := queue[best]
					queue = append(queue[:best], queue[best+1:]...)
					if lim := scns[it.Scn].MaxExecs; !stopScn[it.Scn] && perScn[it.Scn].Execs > lim {
						stopScn[it.Scn] = true
						cappedScn[it.Scn] = true
						capped = true
					}
					if stopScn[it.Scn] || time.Now().After(deadline) {
						if !stopScn[it.Scn] || cappedScn[it.Scn] {
							capped = true
							if len(it.Stack) > 0 {
								perScn[it.Scn].Rest = append(perScn[it.Scn].Rest, it.Stack...)
							} else {
								perScn[it.Scn].Rest = append(perScn[it.Scn].Rest, it.Prefix)
							}
						}
						pendingPerScn[it.Scn]--
						mu.Unlock()
						continue
					}
					inflight++
					mu.Unlock()
					ib := budget
					idl := deadline
					unsplit := scns[it.Scn].HB && !noHB
					if unsplit {
						// the happens-before cache lives in one worker process: do not split such a scenario
						// (measured: 8x more executions when its subtrees are spread over 16 caches); instead
						// it runs in time slices, and what a slice leaves over is queued one round later
						ib = scns[it.Scn].MaxExecs + 1
						if d := time.Now().Add(slice); d.Before(idl) {
							idl = d
						}
					}
					rq, _ := json.Marshal(wreq{Item: it, Budget: ib, Deadline: idl.UnixMilli()})
					wk.in.Write(rq)
					wk.in.WriteByte('\n')
					wk.in.Flush()
					line, err := wk.out.ReadBytes('\n')
					var st stats
					if err != nil || json.Unmarshal(line, &st) != nil {
						mu.Lock()
						engineErrs = append(engineErrs, fmt.Sprintf("worker died on scenario %s bound %d prefix %v: %v", scns[it.Scn].Name, it.Bound, it.Prefix, err))
						inflight--
						pendingPerScn[it.Scn]--
						stopScn[it.Scn] = true
						mu.Unlock()
						cond.Broadcast()
						return
					}
					mu.Lock()
					inflight--
					perScn[it.Scn].merge(&st)
					if len(st.Viols) > 0 || len(st.EngineErr) > 0 {
						stopScn[it.Scn] = true
					}
					if os.Getenv("VERIF_VERBOSE") == "2" {
						fmt.Fprintf(os.Stderr, "    slice %s bound=%d round=%d in-stack=%d execs=%d rest=%d pruned=%d\n", scns[it.Scn].Name, it.Bound, it.Round, len(it.Stack), st.Execs, len(st.Rest), st.Pruned)
					}
					if unsplit && len(st.Rest) > 0 {
						queue = append(queue, item{Scn: it.Scn, Bound: it.Bound, Stack: st.Rest, Round: it.Round + 1, Owner: me})
						pendingPerScn[it.Scn]++
					} else {
						for _, r := range st.Rest {
							queue = append(queue, item{Scn: it.Scn, Bound: it.Bound, Prefix: r})
							pendingPerScn[it.Scn]++
						}
					}
					pendingPerScn[it.Scn]--
					if pendingPerScn[it.Scn] == 0 && !stopScn[it.Scn] {
						// bound completed for this scenario: next bound
						reports[it.Scn].Bounds = append(reports[it.Scn].Bounds, it.Bound)
						if os.Getenv("VERIF_VERBOSE") != "" {
							fmt.Fprintf(os.Stderr, "  %s bound=%d executions=%d outcomes=%d t=%.1fs\n", scns[it.Scn].Name, it.Bound, perScn[it.Scn].Execs, len(perScn[it.Scn].Outcomes), time.Since(start).Seconds())
						}
						curBound[it.Scn]++
						if curBound[it.Scn] < len(scns[it.Scn].Bounds) {
							// restart counting: the larger bound re-explores the smaller one
							old := perScn[it.Scn]
							perScn[it.Scn] = &stats{Outcomes: map[string]int{}}
							_ = old
							queue = append(queue, item{Scn: it.Scn, Bound: scns[it.Scn].Bounds[curBound[it.Scn]]})
							pendingPerScn[it.Scn] = 1
						}
					}
					mu.Unlock()
					cond.Broadcast()
				}
			}(wk, w+1)
		}
		wg.Wait()
		if len(queue) > 0 {
			capped = true
		}
	}

	// collect
	var viols []vrec
	distinctOutcomes := 0
	for _, i := range sel {
		st := perScn[i]
		total.merge(st)
		engineErrs = append(engineErrs, st.EngineErr...)
		viols = append(viols, st.Viols...)
		r := reports[i]
		r.Execs, r.Steps, r.Nodes, r.Outcomes, r.MaxGs = st.Execs, st.Steps, st.Nodes, len(st.Outcomes), st.MaxGs
		r.Capped = len(st.Rest) > 0
		r.HBPruned, r.HB = st.Pruned, scns[i].HB && !noHB
		distinctOutcomes += len(st.Outcomes)
		if f := os.Getenv("VERIF_DUMP_OUTCOMES"); f != "" {
			// full outcome sets per scenario (cross-validation of reductions)
			keys := make([]string, 0, len(st.Outcomes))
			for k := range st.Outcomes {
				keys = append(keys, k)
			}
			sort.Strings(keys)
			if fh, err := os.OpenFile(f, os.O_APPEND|os.O_CREATE|os.O_WRONLY, 0o644); err == nil {
				for _, k := range keys {
					fmt.Fprintf(fh, "%s\t%s\n", scns[i].Name, k)
				}
				fh.Close()
			}
		}
		if len(st.Outcomes) <= 6 {
			r.OutcomeTop = st.Outcomes
		} else {
			r.OutcomeTop = map[string]int{}
			keys := make([]string, 0, len(st.Outcomes))
			for k := range st.Outcomes {
				keys = append(keys, k)
			}
			sort.Strings(keys)
			for _, k := range keys[:6] {
				r.OutcomeTop[k] = st.Outcomes[k]
			}
		}
	}

	nconc := 0
	for _, i := range sel {
		if !scns[i].Sequential {
			nconc++
		}
	}
	if (nconc > 0 || cfg.RequireShims) && total.ShimOps == 0 && os.Getenv("VERIF_ALLOW_NO_SHIMS") == "" {
		engineErrs = append(engineErrs, "no synchronisation operation of instrumented code reached the scheduler: the instrumentation overlay is not applied to this build (the exploration would be vacuous)")
	}
	if len(engineErrs) > 0 {
		for _, e := range engineErrs {
			fmt.Println("ERROR: engine:", e)
		}
		return 2
	}

	// classify violations against the known findings
	exit := 0
	known := map[string]bool{}
	reported := map[string]bool{}
	nviol := 0
	for vi := range viols {
		v := &viols[vi]
		if v.Repro < 5 {
			fmt.Printf("ERROR: violation in %s did not reproduce 5x from its schedule (%d/5): %s\n", v.Scn, v.Repro, v.Msg)
			return 2
		}
		matched := false
		for _, f := range findings {
			if f.Property == cfg.Property && f.Status == "open" && f.Key == v.Key {
				matched = true
				if !known[f.Key] {
					known[f.Key] = true
					fmt.Printf("KNOWN-FINDING: property=%s %s [%s]\n", cfg.Property, f.What, f.Key)
				}
			}
		}
		if matched {
			continue
		}
		if reported[v.Key] {
			continue
		}
		reported[v.Key] = true
		nviol++
		path := writeReplay(root, cfg, v)
		fmt.Printf("VIOLATION property=%s replay=%s\n", cfg.Property, path)
		fmt.Printf("  scenario=%s key=%s bound=%d\n  %s\n", v.Scn, v.Key, v.Bound, strings.ReplaceAll(v.Msg, "\n", "\n  "))
		exit = 1
	}

	wall := time.Since(start).Seconds()
	if writeEv {
		samples := collectSamples(scns, sel, perScn)
		var reps []*scnReport
		for _, i := range sel {
			reps = append(reps, reports[i])
		}
		level := cfg.Level
		if level == "" {
			level = "model_checking"
		}
		cov := map[string]any{
			"evaluations":                   total.Execs,
			"distinct_nontrivial":           total.NonDefault,
			"rule":                          cfg.Rule,
			"samples":                       samples,
			"states":                        total.Nodes,
			"transitions":                   total.Steps,
			"traces_validated_against_impl": total.Execs,
			"exhaustive":                    !capped,
			"distinct_outcomes":             distinctOutcomes,
			"scenarios":                     reps,
			"max_choice_depth":              total.MaxChoices,
			"deadline_hit":                  capped,
			"hb_pruned_nodes":               total.Pruned,
			"explanation":                   "states = decision nodes of the schedule tree (scheduling/environment choice points with >1 enabled transition) expanded; transitions = scheduler steps fired; every execution ran the real code, so traces validated = executions; hb_pruned_nodes = decision nodes not expanded because a node with the same happens-before fingerprint (same partial order of steps, hence same state) had been expanded with at most as many preemptions spent (scenarios marked hb_reduction)",
		}
		for k, v := range total.Counts {
			switch k {
			case "states", "transitions", "evaluations", "distinct_nontrivial", "traces_validated_against_impl":
				cov[k] = cov[k].(int) + v
			default:
				cov[k] = v
			}
		}
		if len(total.Samples) > 0 {
			cov["samples"] = append(total.Samples, samples...)
		}
		for k, v := range cfg.Extra {
			cov[k] = v
		}
		if b, err := os.ReadFile(filepath.Join(root, ".build", "instr", "current", "census.json")); err == nil {
			var c any
			if json.Unmarshal(b, &c) == nil {
				cov["instrumentation_census"] = c
			}
		}
		ev := map[string]any{
			"property_id":               cfg.Property,
			"tier":                      tier,
			"seed":                      seed,
			"level":                     level,
			"coverage":                  cov,
			"assumptions":               cfg.Assume,
			"wall_s":                    wall,
			"violations":                nviol,
			"known_findings_reproduced": len(known),
			"technique":                 cfg.Technique,
		}
		b, _ := json.MarshalIndent(ev, "", " ")
		os.MkdirAll(filepath.Join(root, "evidence"), 0o755)
		if err := os.WriteFile(filepath.Join(root, "evidence", cfg.Property+".json"), b, 0o644); err != nil {
			fmt.Println("ERROR: cannot write evidence:", err)
			return 2
		}
	}
	fmt.Printf("%s tier=%s scenarios=%d executions=%d transitions=%d decision_nodes=%d distinct_outcomes=%d exhaustive=%v violations=%d known=%d wall=%.1fs\n",
		cfg.Property, tier, len(sel), total.Execs, total.Steps, total.Nodes, distinctOutcomes, !capped, nviol, len(known), wall)
	return exit
}

func max1(n int) int {
	if n < 1 {
		return 1
	}
	return n
}

func countSeq(scns []Scenario, sel []int) int {
	n := 0
	for _, i := range sel {
		if scns[i].Sequential {
			n++
		}
	}
	return n
}

func collectSamples(scns []Scenario, sel []int, per []*stats) []any {
	var out []any
	for _, i := range sel {
		if scns[i].Sequential {
			continue
		}
		if len(out) >= 3 {
			break
		}
		x, res := runOne(&scns[i], nil, true)
		tr := res.Trace
		if len(tr) > 40 {
			tr = append(tr[:40:40], fmt.Sprintf("... %d more steps", len(res.Trace)-40))
		}
		out = append(out, map[string]any{"scenario": scns[i].Name, "desc": scns[i].Desc, "schedule": "default (all choices 0)", "outcome": strings.Join(x.outcome, "|"), "trace": tr, "notes": x.logs})
	}
	if len(out) == 0 {
		for _, i := range sel {
			out = append(out, map[string]any{"scenario": scns[i].Name, "desc": scns[i].Desc})
			if len(out) >= 3 {
				break
			}
		}
	}
	return out
}

func writeReplay(root string, cfg Config, v *vrec) string {
	dir := filepath.Join(root, "replay")
	os.MkdirAll(dir, 0o755)
	h := uint32(2166136261)
	for _, c := range v.Key + fmt.Sprint(v.Choices) {
		h = (h ^ uint32(c)) * 16777619
	}
	path := filepath.Join(dir, fmt.Sprintf("%s-%08x.json", cfg.Property, h))
	b, _ := json.MarshalIndent(map[string]any{"property": cfg.Property, "scenario": v.Scn, "key": v.Key, "bound": v.Bound, "choices": v.Choices, "message": v.Msg, "trace": v.Trace, "logs": v.Logs}, "", " ")
	os.WriteFile(path, b, 0o644)
	return path
}

func doReplay(cfg Config, scns []Scenario, path string) int {
	b, err := os.ReadFile(path)
	if err != nil {
		fmt.Println("ERROR:", err)
		return 2
	}
	var r struct {
		Scenario string `json:"scenario"`
		Choices  []int  `json:"choices"`
	}
	if err := json.Unmarshal(b, &r); err != nil {
		fmt.Println("ERROR:", err)
		return 2
	}
	for i := range scns {
		if scns[i].Name != r.Scenario {
			continue
		}
		if scns[i].Sequential {
			x, _ := runSeq(&scns[i], true)
			for _, l := range x.logs {
				fmt.Println("  #", l)
			}
			if len(x.viols) > 0 {
				fmt.Printf("VIOLATION property=%s replay=%s\n  %s\n", cfg.Property, path, x.viols[0].Msg)
				return 1
			}
			fmt.Println("replay: no violation")
			return 0
		}
		runOne(&scns[i], nil, false) // warm-up
		x, res := runOne(&scns[i], r.Choices, true)
		for _, t := range res.Trace {
			fmt.Println("  ", t)
		}
		for _, l := range x.logs {
			fmt.Println("  #", l)
		}
		if res.Diverged != "" {
			fmt.Println("ERROR: replay diverged:", res.Diverged)
			return 2
		}
		if len(x.viols) > 0 {
			fmt.Printf("VIOLATION property=%s replay=%s\n  %s\n", cfg.Property, path, x.viols[0].Msg)
			for _, v := range x.viols[1:] {
				fmt.Printf("  also [%s]: %s\n", v.Key, strings.ReplaceAll(v.Msg, "\n", "\n    "))
			}
			return 1
		}
		fmt.Println("replay: no violation")
		return 0
	}
	fmt.Println("ERROR: scenario not found:", r.Scenario)
	return 2
}

// InProcessResult summarises an in-process exploration (used by the engine self-tests).
type InProcessResult struct {
	Executions int
	Outcomes   map[string]int
	Violations []string
	EngineErr  []string
}

// InProcess explores scn completely in this process with the given preemption bound (-1 = unbounded).
func InProcess(scn *Scenario, bound int) InProcessResult {
	runOne(scn, nil, false) // warm-up
	st := exploreItem(scn, bound, nil, 1<<30, time.Now().Add(time.Hour))
	for len(st.Rest) > 0 && len(st.Viols) < 3 && len(st.EngineErr) == 0 {
		rest := st.Rest
		st.Rest = nil
		for _, p := range rest {
			s2 := exploreItem(scn, bound, p, 1<<30, time.Now().Add(time.Hour))
			st.merge(s2)
			st.Rest = append(st.Rest, s2.Rest...)
		}
	}
	res := InProcessResult{Executions: st.Execs, Outcomes: st.Outcomes, EngineErr: st.EngineErr}
	for _, v := range st.Viols {
		res.Violations = append(res.Violations, v.Msg)
	}
	return res
}
