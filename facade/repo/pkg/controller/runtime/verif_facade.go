//go:build verif

package runtime

import (
	"github.com/cosi-project/runtime/pkg/controller/runtime/internal/cache"
	"github.com/cosi-project/runtime/pkg/controller/runtime/internal/dependency"
	"github.com/cosi-project/runtime/pkg/controller/runtime/internal/qruntime"
	"github.com/cosi-project/runtime/pkg/controller/runtime/options"
)

// Verification facade (overlay-added, tag verif): re-exports internal packages to the harnesses.

// VerifDepDB is the dependency database.
type VerifDepDB = dependency.Database

// VerifNewDepDB creates a dependency database.
func VerifNewDepDB() (*VerifDepDB, error) { return dependency.NewDatabase() }

// VerifCache is the resource cache.
type VerifCache = cache.ResourceCache

// VerifNewCache creates a resource cache.
func VerifNewCache(resources []options.CachedResource) *VerifCache {
	return cache.NewResourceCache(resources)
}

// VerifQueue is the reconcile queue.
type VerifQueue[K comparable, V any] = qruntime.VerifQueue[K, V]

// VerifQueueItem is a queue item.
type VerifQueueItem[K comparable, V any] = qruntime.VerifQueueItem[K, V]

// VerifNewQueue creates a queue.
func VerifNewQueue[K comparable, V any]() *VerifQueue[K, V] { return qruntime.VerifNewQueue[K, V]() }

// VerifDepDBOf returns the dependency database of a runtime.
func VerifDepDBOf(r *Runtime) *VerifDepDB { return r.depDB }
