//go:build verif

package qruntime

import "github.com/cosi-project/runtime/pkg/controller/runtime/internal/qruntime/internal/queue"

// VerifQueue re-exports the internal queue (overlay-added, tag verif).
type VerifQueue[K comparable, V any] = queue.Queue[K, V]

// VerifQueueItem re-exports the queue item.
type VerifQueueItem[K comparable, V any] = queue.Item[K, V]

// VerifNewQueue creates a queue.
func VerifNewQueue[K comparable, V any]() *VerifQueue[K, V] { return queue.NewQueue[K, V]() }
