//go:build verif

package bbolt

// VerifWrapWriteAt lets the crash harness observe every file mutation bbolt performs: it replaces the
// existing db.ops.writeAt test seam with wrap(original). Overlay-added file (tag verif).
func VerifWrapWriteAt(db *DB, wrap func(orig func(b []byte, off int64) (int, error)) func(b []byte, off int64) (int, error)) {
	db.ops.writeAt = wrap(db.ops.writeAt)
}
