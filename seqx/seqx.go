// Package seqx is the explicit-state breadth-first search over operation sequences (engine B):
// a state is reached by building a fresh real instance and replaying the history; states are
// deduplicated on a canonical abstract state; every enabled operation is applied from every state.
package seqx

import (
	"fmt"
	"runtime"
	"strings"
	"sync"
)

// Inst is one fresh implementation+model pair.
type Inst interface {
	// Ops lists the operations of the alphabet that are applied from the current state.
	Ops() []string
	// Apply runs op on the implementation and the model and compares; returns a violation description or "".
	Apply(op string) string
	// Canon is the canonical abstract state (same canon => same futures).
	Canon() string
	// Close releases resources.
	Close()
}

// Result of a search.
type Result struct {
	States      int
	Transitions int
	Depth       int
	Violations  []Violation
	Outcomes    map[string]int
	SampleHist  [][]string
}

// Violation found by the search: history + op + description.
type Violation struct {
	History []string
	Op      string
	Msg     string
}

func (v Violation) String() string {
	return fmt.Sprintf("after [%s] op %s: %s", strings.Join(v.History, " ; "), v.Op, v.Msg)
}

// BFS explores all sequences up to depth from the initial state; parallel > 1 runs successors of one
// level concurrently (only for instances that do not use the global scheduler).
func BFS(newInst func() Inst, depth int, parallel int, maxViol int) Result {
	res := Result{Outcomes: map[string]int{}}
	seen := map[string]bool{}
	root := newInst()
	seen[root.Canon()] = true
	root.Close()
	res.States = 1
	frontier := [][]string{{}}
	if parallel < 1 {
		parallel = 1
	}
	if parallel > runtime.NumCPU() {
		parallel = runtime.NumCPU()
	}
	for d := 0; d < depth && len(frontier) > 0; d++ {
		type succ struct {
			hist  []string
			canon string
			viol  *Violation
			n     int
		}
		outs := make([][]succ, len(frontier))
		var wg sync.WaitGroup
		sem := make(chan struct{}, parallel)
		for fi, h := range frontier {
			wg.Add(1)
			sem <- struct{}{}
			go func(fi int, h []string) {
				defer wg.Done()
				defer func() { <-sem }()
				base := newInst()
				for _, op := range h {
					base.Apply(op)
				}
				ops := base.Ops()
				base.Close()
				for _, op := range ops {
					in := newInst()
					for _, o := range h {
						in.Apply(o)
					}
					msg := safeApply(in, op)
					s := succ{hist: append(append([]string{}, h...), op), n: 1}
					if msg != "" {
						s.viol = &Violation{History: h, Op: op, Msg: msg}
					} else {
						s.canon = in.Canon()
					}
					in.Close()
					outs[fi] = append(outs[fi], s)
				}
			}(fi, h)
		}
		wg.Wait()
		var next [][]string
		for _, ss := range outs {
			for _, s := range ss {
				res.Transitions++
				if s.viol != nil {
					if len(res.Violations) < maxViol {
						res.Violations = append(res.Violations, *s.viol)
					}
					continue
				}
				if !seen[s.canon] {
					seen[s.canon] = true
					res.States++
					next = append(next, s.hist)
					if len(res.SampleHist) < 3 && len(s.hist) >= 2 {
						res.SampleHist = append(res.SampleHist, s.hist)
					}
				}
			}
		}
		frontier = next
		res.Depth = d + 1
		if len(res.Violations) >= maxViol {
			break
		}
	}
	return res
}

func safeApply(in Inst, op string) (msg string) {
	defer func() {
		if r := recover(); r != nil {
			buf := make([]byte, 2048)
			buf = buf[:runtime.Stack(buf, false)]
			msg = fmt.Sprintf("panic: %v\n%s", r, buf)
		}
	}()
	return in.Apply(op)
}
