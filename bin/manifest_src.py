ENGINES = [
    {"name": "gosched", "path": "vrt/ explore/ instr/", "serves_properties": ["C04"],
     "kind_free_text": "stateless model checker for Go: AST instrumenter rewrites go/chan/select/sync/atomic/time/context onto a cooperative scheduler (vrt); explorer does DFS over schedules and environment choices with iterative preemption bounding, work-splitting over worker processes, replay files"},
]
NOTES = "All checks rebuild from /repo's working tree through bin/prepare (instrument + overlay); exit 2 = engine/build error (never a verdict)."
NOT_APPLICABLE = {}
A_NOTE = "Trusted: the vrt shims model Go's mutex/cond/channel/select/timer semantics faithfully (self-tests + repository tests pass on the instrumented build in passthrough mode); sequential consistency; scheduling points before acquire-type operations only; data races are left to a separate -race pass."
CHECKS = {
    "C04": {
        "engine": "gosched",
        "technique": "stateless model checking of the real helpers under a controlled scheduler (all schedules of 2 callers unbounded; 3 callers up to 2 preemptions); commit-log refinement oracle",
        "text": "Every schedule of 2 concurrent helper calls (all unordered pairs of 14 helper variants x 3 initial states, unbounded) and of 3 calls (preemption bound 2) on the real wrap.go/owned/safe code over the real inmem store is executed; each commit must be exactly previous-state + that call's mutation under its owner/phase conditions, success implies exactly-once effect, error implies no effect and a justified class.",
        "design_ref": "DESIGN.md 3/C04",
        "note": A_NOTE,
    },
}
