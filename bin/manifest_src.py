ENGINES = [
    {"name": "enumx", "path": "harness/c14 harness/c18 (nested generators)", "serves_properties": ["C14", "C18"],
     "kind_free_text": "small-scope exhaustive input enumeration: nested generators over explicit hostile alphabets, every combination up to the stated size, nothing drawn at random"},
    {"name": "seqx", "path": "seqx/", "serves_properties": ["C01", "C11", "C17", "C20"],
     "kind_free_text": "explicit-state breadth-first search over operation sequences: successor = fresh real instance + replay of the shortest history + one operation; dedup on the reference model's canonical state; every operation of the alphabet applied from every reachable state and compared with the reference model"},
    {"name": "gosched", "path": "vrt/ explore/ instr/", "serves_properties": ["C01", "C02", "C03", "C04"],
     "kind_free_text": "stateless model checker for Go: AST instrumenter rewrites go/chan/select/sync/atomic/time/context onto a cooperative scheduler (vrt); explorer does DFS over schedules and environment choices with iterative preemption bounding, work-splitting over worker processes, replay files"},
]
NOTES = "All checks rebuild from /repo's working tree through bin/prepare (instrument + overlay); exit 2 = engine/build error (never a verdict)."
NOT_APPLICABLE = {}
A_NOTE = "Trusted: the vrt shims model Go's mutex/cond/channel/select/timer semantics faithfully (self-tests + repository tests pass on the instrumented build in passthrough mode); sequential consistency; scheduling points before acquire-type operations only; data races are left to a separate -race pass."
CHECKS = {
    "C12": {
        "engine": "enumeration on gosched (deterministic schedule)",
        "technique": "exhaustive enumeration of history length x delivered bookmark x further writes x watch flavour, of derived bookmark byte strings and of tail sizes on the real inmem watch ring; every watch run to exact quiescence on the controlled scheduler and compared with the commit log",
        "text": "For 11 history configurations (initial/max/gap incl. growth, wrap-around, gap >= capacity) and every history of 0..7 (thorough 12) scripted writes: each bookmark delivered to by-id, kind and aggregated watches (and the -1 bookmark of a bootstrap on an empty log) is used to restart all three flavours after 0, 1 and 2 further writes; an accepted restart must deliver exactly the events that followed the bookmark (compared with the commit log, so a gap, duplicate or reorder shows), each again with a bookmark; the most recent (initial capacity - gap) events' bookmarks must be accepted; a rejection must be an invalid-bookmark error with nothing delivered. Every truncation, extension and per-byte substitution (3 values) of a valid bookmark and correctly prefixed positions -3..len+2 must be rejected unless they are valid positions. Tail N for N=1..capacity+2 must deliver exactly the last min(N, retained) events (of that id for resource watches) and then the live events.",
        "design_ref": "DESIGN.md 3/C12",
        "note": A_NOTE + " Deterministic default schedule (consumers keep up); ring interleavings are C02's subject. 'retained' = min(log length, current capacity - gap), current capacity from a 6-line model of first-lap doubling.",
    },
    "C18": {
        "engine": "enumx",
        "category": "exploration",
        "technique": "small-scope exhaustive input enumeration (bounded-exhaustive, not sampled): every metadata variant x spec kind through every encoding; every truncation / single-byte substitution / short byte string through every decoder",
        "text": "Round trip: 2448 resources (each metadata field over a 29-string alphabet hostile to YAML and protobuf, all 841 label and all 841 annotation key x value pairs, finalizer lists, versions up to 2^63-1, both phases, timestamps incl. zero, pre-epoch, nanoseconds, non-UTC; 4 spec kinds: int, string, a protobuf ResourceSpec, a dynamic protoenc spec) x 10 encodings (wire form, store marshaler, zstd at thresholds 0 / exactly len / len+1, AES-GCM, zstd(aes), aes(zstd), aes(zstd below threshold), YAML): decode(encode(x)) == x by Metadata.Equal + timestamps at the format's precision + spec. Text forms of version and phase parse back. Totality: for 6 seed encodings per codec every truncation, 6 substitutions at every offset and a one-byte extension, all byte strings of length <= 3 over 5 values, and the same for wire-form and YAML documents (39k decoder inputs): an error or a usable resource, never a panic; for encrypted records every such tamper and a wrong key must be an error. This decides the property for inputs in the stated scope only.",
        "design_ref": "DESIGN.md 3/C18",
        "note": "Level is exploration (bounded-exhaustive enumeration of a stated input scope, no scheduler involved). Trusted: yaml/protobuf/zstd libraries; comparison by Metadata.Equal and a spec renderer.",
    },
    "C19": {
        "engine": "enumeration on gosched (deterministic schedule)",
        "technique": "exhaustive enumeration of API call sequences (each run to exact quiescence on the controlled scheduler) x every held object x every public mutation, with a full re-read of the store after each mutation, plus a copy-on-write law on metadata copies",
        "text": "Every sequence of <= 3 (thorough 4) calls over 10 API operations (Create, Update, Modify existing/new, UpdateWithConflicts, Get, List, Watch, WatchKind+bootstrap, metadata copies) on three flavours (inmem, runtime cache fed by a watch like the runtime does, remote loopback) collects every object the caller handed in or got back (arguments, callback arguments, results, list items, metadata Copy() and value copies; watch event objects are kept as read-only observers). Then each held object is mutated with each of 18 public mutations (labels/annotations set existing/new/delete/Do, finalizers add/remove first/last/set/element write, phase, version, owner, timestamps, spec incl. in-place slice write and append on a slice-valued typed spec) and after every single mutation the store (Get x3 + List, via the backend and via the flavour) and every other held object must render unchanged; finally two copies of each (over-allocated) metadata are mutated alternately and must not influence each other.",
        "design_ref": "DESIGN.md 3/C19",
        "note": "Trusted: the renderer covers every metadata field and the spec; writes through KV.Raw() are outside the public mutation API. Deterministic default schedule. Watch event objects are shared with the store by design and therefore only observed.",
    },
    "C14": {
        "engine": "enumx + gosched (deterministic schedule)",
        "technique": "small-scope exhaustive enumeration of selector terms/queries x label maps at four evaluation sites vs an independent evaluator and algebraic laws; exhaustive histories of label changes with filtered lists and watches replayed at exact quiescence",
        "text": "Algebra: all 2548 label terms (2 keys x 7 operators x invert x value lists of length 0/1/2 over 9 hostile values incl. unit suffixes, blanks, negatives, non-numerics) and a covering set of term pairs (AND within a query, OR across queries) and ID regexps are evaluated on all 100 label maps at four sites - LabelQueries.Matches, direct inmem List, the runtime cache List (facade), and a remote List through transformLabelQuery -> wire -> ConvertLabelQuery - and must agree with an independent evaluator written from the documented semantics; laws: invert negates exactly the defined results, undefined comparisons never match, In = OR of Equal. Views: every history of <= 3 (thorough 4) label/existence changes on two resources x 9 selectors: filtered List == brute-force filter of the full List; a selector-filtered kind watch (started before and after the first step, inmem and remote) replayed over its bootstrap == filtered List, with only legal Created/Updated/Destroyed transitions.",
        "design_ref": "DESIGN.md 3/C14",
        "note": "Trusted: the independent evaluator (40 lines) as the reading of the documented semantics; alphabet bounds. Views use the deterministic default schedule.",
    },
    "C11": {
        "engine": "seqx-style BFS on gosched (deterministic schedule) + enumeration",
        "technique": "explicit-state BFS over operation sequences on a differential twin (direct state vs client adapter -> real vtproto marshalling -> server), every history run to exact quiescence on the controlled scheduler; exhaustive enumeration of malformed wire requests against the real server",
        "text": "Every operation of a 45-operation alphabet (create/update with stale and fresh versions, owners, expected phases, value/phase/finalizer/label changes, destroy, Teardown, TeardownAndDestroy incl. the blocking case, finalizer helpers) is applied from every distinct observed state within depth 4 (thorough 5, richer alphabet) to WrapCore(inmem) and to WrapCore(client.Adapter -> in-process transport -> server.State -> inmem); compared per step: result, error class through all predicates with matching and non-matching qualifiers, write-back of version/owner/update time; per state: Get, 5 filtered Lists (label, OR of queries, inverted, numeric, ID regexp) and 5 watch streams (by id, kind+bootstrap, aggregated tail, label-filtered, by id tail) including bookmark bytes. Repeated against a server lacking the native Teardown RPCs (sticky fallback: at most one native attempt). Wire: 1647 requests covering every RPC with absent/empty/valid/invalid fields, every label operator x 0/1/2 values x invert, invalid regexp, unknown phase/operator, all watch-option conflicts, bad bookmarks: a handler panic is a violation.",
        "design_ref": "DESIGN.md 3/C11",
        "note": A_NOTE + " The transport is an in-process loopback (real message marshalling and grpc status conversion, no HTTP/2); tombstone-ness of the initial Destroyed event is not compared (the wire format carries tombstones as ordinary resources).",
    },
    "C08": {
        "engine": "gosched (deterministic schedule) + enumeration",
        "technique": "exhaustive enumeration of declaration x operation x target x owner on the real runtime API, each case run to exact quiescence under the controlled scheduler, against a reference policy",
        "text": "For every declaration (6 input kinds x by-kind/by-ID x {no output, exclusive, shared} x cached/uncached; both controller flavours) a probe controller performs each of 18 operations (Get/List/ContextWithTeardown/GetUncached/ListUncached/Create(+NoOwner)/Update/Modify(+WithResult,+NoOwner)/Teardown(+WithOwner)/Destroy(+WithOwner x2)/AddFinalizer/RemoveFinalizer) on 5 targets (declared input same id / other id, declared output, undeclared type, input type in another namespace) x 4 current owners (self, other, nobody, absent) through the real runtime; a policy function transcribed from the statement decides allow/deny and the expected resulting store; denied => error and full snapshot (incl. bystanders) unchanged; allowed create stamps the controller as owner; foreign-owned resources untouched unless the explicit owner option names that owner.",
        "design_ref": "DESIGN.md 3/C08",
        "note": A_NOTE + " Deterministic default schedule: the property is about access decisions.",
    },
    "C17": {
        "engine": "seqx+gosched",
        "technique": "explicit-state BFS over dependency-database operations vs a set model (white-box facade) + exhaustive enumeration of registration sequences on the real runtime run to exact quiescence on the controlled scheduler",
        "text": "White-box: every AddControllerOutput/AddControllerInput/DeleteControllerInput operation (2 controllers x 2 types x ids none/a/b x all 6 input kinds x both output kinds) from every model state reachable within depth 4 (thorough 5) on the real dependency.Database, with Export/GetDependentControllers/GetControllerInputs/GetControllerOutputs compared with a set model after each step. API: every sequence of <= 3 (thorough 4) RegisterController/RegisterQController/UpdateInputs calls over 14 valid and invalid declarations (duplicate keys, wrong kind for the flavour, concurrency 0, exclusive/shared clashes on the first or a later output, duplicate name) with Run started at every position, on the real runtime: accept/reject as the model predicts, graph == accepted declarations after every step (a rejected registration changes nothing), then one write per (type,id) wakes exactly the controllers with a matching input by kind or by ID, no goroutine panics, clean shutdown.",
        "design_ref": "DESIGN.md 3/C17",
        "note": A_NOTE + " The API part uses the deterministic default schedule; delivery interleavings are C05's subject.",
    },
    "C20": {
        "engine": "seqx",
        "technique": "explicit-state BFS over key-storage operation sequences vs a reference model (every operation from every reachable abstract state) + exhaustive single-alteration tampering of the serialised storage from every reachable state",
        "text": "All 64 abstract states (initialised?, slot -> key pair over 3 slots x 3 x25519 pairs) are reached and all 100 operations (Initialize, AddKeySlot with every slot/pair/old-slot/key combination incl. wrong keys, DeleteKeySlot, Marshal->Unmarshal) are applied from each on the real KeyStorage; after every step every slot/key retrieval must agree with the model (right key -> original master key, otherwise the right error tag; last slot undeletable; no overwrite; second Initialize refused). From every state the serialised form is altered in exactly one place (blob bytes at 9 offsets x 2 flips per slot, truncation, each HMAC byte, HMAC truncated/emptied, version, slot removed/copied/garbage) and every retrieval must then fail.",
        "design_ref": "DESIGN.md 3/C20",
        "note": "Trusted: gopenpgp; the reference model (a slot->pair map); key pairs generated once per run. Algorithm-enum alteration is reported, not asserted (detected anyway via AlgorithmMismatch).",
    },
    "C01": {
        "engine": "seqx+gosched",
        "technique": "explicit-state BFS of operation sequences vs a reference model on 5 CoreState flavours + stateless model checking of 2-3 concurrent clients with a porcupine linearizability check of every history",
        "text": "Sequential: every operation of a 190-operation alphabet (create/update/destroy/get/list x owners x stale/fresh/undefined versions x expected phases x value/phase/finalizer changes, two ids) is applied from every abstract state reachable within depth 5 (thorough 6) on inmem, namespaced, state.Filter, inmem+recording store, inmem+bbolt and compared with a Go map model: success/failure, failure class among the applicable reasons, untouched snapshot incl. timestamps on failure, version/owner write-back, creation time kept, all error predicates bare and qualified without panic. Concurrent: all schedules (unbounded) of every pair of 13 operations x 4 initial states, and triples at preemption bound 2, each history checked by porcupine against the same model.",
        "design_ref": "DESIGN.md 3/C01",
        "note": A_NOTE + " Remote flavour of C01 is exercised by the C11 differential check.",
    },
    "C02": {
        "engine": "gosched",
        "technique": "stateless model checking of the real inmem watch ring under a controlled scheduler (iterative preemption bounding); delivered stream vs commit log at exact quiescence",
        "text": "Every schedule (quick: bound 0 with free switches at every write and receive for 6-write scripts on 8 history configurations x 5 watch flavours, bound 1 for 4-write, bound 2 for 3-write scripts, two concurrent subscribers; thorough: 9-write scripts and higher bounds) of a scripted writer (create/update/destroy/re-create over two ids plus a foreign kind) against subscribers that start and consume at scheduler-chosen moments runs on the real collection.go; the delivered stream must equal the commit log from some start index inside the Watch call window (contiguous, in order, exactly once, correct Old values, bootstrap snapshot = state at that index, strictly increasing bookmarks, nothing from other kinds/ids) or end in one terminal Errored, which is forbidden when the subscriber never lagged more than the initial capacity.",
        "design_ref": "DESIGN.md 3/C02",
        "note": A_NOTE,
    },
    "C03": {
        "engine": "gosched",
        "technique": "stateless model checking of the real lifecycle helpers under a controlled scheduler (iterative preemption bounding; exact quiescence); commit-log and modelled-watch-event oracles",
        "text": "Every schedule (preemption bound 2 for pairs, 1 for triples; thorough: unbounded pairs, bound 2 triples) of 2-3 actors drawn from TeardownAndDestroy/Teardown/Destroy/finalizer add+remove/re-create/WatchFor(3 conditions)/ContextWithTeardown on one resource from 4 initial states runs on the real wrap.go + inmem code; oracles S1 (no destroy with finalizers), S2 (ready flag), S3 (success => destroy committed during the call), L1 (no missed wake-up: blocked at exact quiescence only while finalizers remain), W1 (WatchFor returns the first matching event of the modelled sequence for some establishment point in the recorded window, never blocked past a match), X1/X2 (teardown context cancelled iff torn down/absent), and cancellation unblocks every helper.",
        "design_ref": "DESIGN.md 3/C03",
        "note": A_NOTE,
    },
    "C04": {
        "engine": "gosched",
        "technique": "stateless model checking of the real helpers under a controlled scheduler (all schedules of 2 callers unbounded; 3 callers up to 2 preemptions); commit-log refinement oracle",
        "text": "Every schedule of 2 concurrent helper calls (all unordered pairs of 14 helper variants x 3 initial states, unbounded) and of 3 calls (preemption bound 2) on the real wrap.go/owned/safe code over the real inmem store is executed; each commit must be exactly previous-state + that call's mutation under its owner/phase conditions, success implies exactly-once effect, error implies no effect and a justified class.",
        "design_ref": "DESIGN.md 3/C04",
        "note": A_NOTE,
    },
}
