ENGINES = [
    {"name": "gosched", "path": "vrt/ explore/ instr/", "serves_properties": ["C03", "C04"],
     "kind_free_text": "stateless model checker for Go: AST instrumenter rewrites go/chan/select/sync/atomic/time/context onto a cooperative scheduler (vrt); explorer does DFS over schedules and environment choices with iterative preemption bounding, work-splitting over worker processes, replay files"},
]
NOTES = "All checks rebuild from /repo's working tree through bin/prepare (instrument + overlay); exit 2 = engine/build error (never a verdict)."
NOT_APPLICABLE = {}
A_NOTE = "Trusted: the vrt shims model Go's mutex/cond/channel/select/timer semantics faithfully (self-tests + repository tests pass on the instrumented build in passthrough mode); sequential consistency; scheduling points before acquire-type operations only; data races are left to a separate -race pass."
CHECKS = {
    "C03": {
        "engine": "gosched",
        "technique": "stateless model checking of the real lifecycle helpers under a controlled scheduler (iterative preemption bounding; exact quiescence); commit-log and modelled-watch-event oracles",
        "text": "Every schedule (preemption bound 2 for pairs, 1 for triples; thorough: unbounded pairs, bound 2 triples) of 2-3 actors drawn from TeardownAndDestroy/Teardown/Destroy/finalizer add+remove/re-create/WatchFor(3 conditions)/ContextWithTeardown on one resource from 4 initial states runs on the real wrap.go + inmem code; oracles S1 (no destroy with finalizers), S2 (ready flag), S3 (success => destroy committed during the call), L1 (no missed wake-up: blocked at exact quiescence only while finalizers remain), W1 (WatchFor returns the first matching event of the modelled sequence for some establishment point in the recorded window, never blocked past a match), X1/X2 (teardown context cancelled iff torn down/absent), and cancellation unblocks every helper.",
        "design_ref": "DESIGN.md 3/C03",
        "note": A_NOTE,
    },
    "C04": {
        "engine": "gosched",
        "technique": "stateless model checking of the real helpers under a controlled scheduler (all schedules of 2 callers unbounded; 3 callers up to 2 preemptions); commit-log refinement oracle",
        "text": "Every schedule of 2 concurrent helper calls (all unordered pairs of 14 helper variants x 3 initial states, unbounded) and of 3 calls (preemption bound 2) on the real wrap.go/owned/safe code over the real inmem store is executed; each commit must be exactly previous-state + that call's mutation under its owner/phase conditions, success implies exactly-once effect, error implies no effect and a justified class.",
        "design_ref": "DESIGN.md 3/C04",
        "note": A_NOTE,
    },
}
