# sourced by every script: offline Go toolchain for the repository (needs go 1.26.5+)
VERIF_ROOT="$(cd "$(dirname "${BASH_SOURCE[0]}")/.." && pwd)"
for tc in /root/go/pkg/mod/golang.org/toolchain@v0.0.1-go1.26.5.linux-amd64/bin /opt/veriftools/go1.26.8/bin; do
  if [ -x "$tc/go" ]; then PATH="$tc:$PATH"; break; fi
done
export PATH
export GOTOOLCHAIN=local GOFLAGS=-mod=mod GOPROXY=off GOSUMDB=off GONOSUMDB='*' GONOSUMCHECK=1
export VERIF_ROOT
