# sourced by every script: offline Go toolchain for the repository (needs go 1.26.5+)
VERIF_ROOT="$(cd "$(dirname "${BASH_SOURCE[0]}")/.." && pwd)"
for tc in /root/go/pkg/mod/golang.org/toolchain@v0.0.1-go1.26.5.linux-amd64/bin /opt/veriftools/go1.26.8/bin; do
  if [ -x "$tc/go" ]; then PATH="$tc:$PATH"; break; fi
done
export PATH
export GOTOOLCHAIN=local GOFLAGS=-mod=mod GOPROXY=off GOSUMDB=off GONOSUMDB='*' GONOSUMCHECK=1
export VERIF_ROOT

# the tree to verify: /repo unless VERIF_REPO points at a scratch copy (used for background runs on a snapshot)
VERIF_REPO="${VERIF_REPO:-/repo}"
export VERIF_REPO
if [ "$VERIF_REPO" != "/repo" ]; then
  mkdir -p "$VERIF_ROOT/.build/modfiles"
  _mf="$VERIF_ROOT/.build/modfiles/$(echo "$VERIF_REPO" | sha1sum | cut -c1-12).mod"
  sed "s#=> /repo\$#=> $VERIF_REPO#" "$VERIF_ROOT/go.mod" > "$_mf"
  cp "$VERIF_ROOT/go.sum" "${_mf%.mod}.sum"
  export GOFLAGS="-mod=mod -modfile=$_mf"
fi
