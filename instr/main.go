// Command instr rewrites the concurrency constructs of the listed packages onto the vrt shims by
// source-text surgery driven by go/types, and writes the rewritten copies plus a `go build -overlay`
// file. Usage: instr -out DIR [-facade DIR:ROOT ...] pkg...
package main

import (
	"bytes"
	"encoding/json"
	"fmt"
	"go/ast"
	"go/importer"
	"go/parser"
	"go/token"
	"go/types"
	"io"
	"os"
	"os/exec"
	"path/filepath"
	"sort"
	"strings"
)

type listPkg struct {
	ImportPath, Export, Dir string
	GoFiles                 []string
}

type census map[string]int

type rw struct {
	fset    *token.FileSet
	src     []byte
	file    *token.File
	info    *types.Info
	two     map[ast.Node]bool // recv exprs in 2-value context
	selN    int
	cs      census
	needV   map[string]bool // vrt, vtime, vctx
	errs    []string
	labels  map[ast.Stmt]bool
	pkgPath string
}

func (r *rw) off(p token.Pos) int { return r.file.Offset(p) }

func (r *rw) orig(n ast.Node) string { return string(r.src[r.off(n.Pos()):r.off(n.End())]) }

// text returns the rewritten text of node n.
func (r *rw) text(n ast.Node) string {
	if n == nil {
		return ""
	}
	if s, ok := r.rewrite(n); ok {
		return s
	}
	return r.splice(n)
}

// splice renders n with rewrites applied to its descendants (but not to n itself).
func (r *rw) splice(n ast.Node) string {
	type ed struct {
		s, e int
		t    string
	}
	var eds []ed
	ast.Inspect(n, func(c ast.Node) bool {
		if c == nil || c == n {
			return true
		}
		if s, ok := r.rewrite(c); ok {
			eds = append(eds, ed{r.off(c.Pos()), r.off(c.End()), s})
			return false
		}
		return true
	})
	sort.Slice(eds, func(i, j int) bool { return eds[i].s < eds[j].s })
	var b strings.Builder
	cur := r.off(n.Pos())
	for _, e := range eds {
		b.Write(r.src[cur:e.s])
		b.WriteString(e.t)
		cur = e.e
	}
	b.Write(r.src[cur:r.off(n.End())])
	return b.String()
}

func (r *rw) stmts(list []ast.Stmt) string {
	var b strings.Builder
	for _, s := range list {
		b.WriteString(r.text(s))
		b.WriteString("\n")
	}
	return b.String()
}

func (r *rw) isPkg(x ast.Expr, path string) bool {
	id, ok := x.(*ast.Ident)
	if !ok {
		return false
	}
	pn, ok := r.info.Uses[id].(*types.PkgName)
	return ok && pn.Imported().Path() == path
}

func isCtx(t types.Type) bool {
	if t == nil {
		return false
	}
	n, ok := t.(*types.Named)
	return ok && n.Obj().Pkg() != nil && n.Obj().Pkg().Path() == "context" && n.Obj().Name() == "Context"
}

var timeSyms = map[string]bool{"Now": true, "Since": true, "Until": true, "After": true, "Sleep": true, "NewTimer": true, "NewTicker": true, "AfterFunc": true, "Tick": true, "Timer": true, "Ticker": true}
var ctxSyms = map[string]bool{"AfterFunc": true, "WithCancel": true, "WithCancelCause": true, "WithTimeout": true, "WithDeadline": true, "Cause": true}

func (r *rw) rewrite(n ast.Node) (string, bool) {
	switch x := n.(type) {
	case *ast.GoStmt:
		r.cs["go"]++
		r.needV["vrt"] = true
		return "vrt.Go(func() { " + r.text(x.Call) + " })", true
	case *ast.SendStmt:
		r.cs["send"]++
		r.needV["vrt"] = true
		return "vrt.Chan(" + r.text(x.Chan) + ").Send(" + r.text(x.Value) + ")", true
	case *ast.UnaryExpr:
		if x.Op == token.ARROW {
			r.cs["recv"]++
			r.needV["vrt"] = true
			if r.two[x] {
				return "vrt.Recv2(" + r.text(x.X) + ")", true
			}
			return "vrt.Recv1(" + r.text(x.X) + ")", true
		}
	case *ast.LabeledStmt:
		if _, ok := x.Stmt.(*ast.SelectStmt); ok {
			r.errs = append(r.errs, fmt.Sprintf("%s: labelled select unsupported", r.fset.Position(x.Pos())))
		}
	case *ast.SelectStmt:
		return r.rewriteSelect(x), true
	case *ast.CallExpr:
		if id, ok := x.Fun.(*ast.Ident); ok && id.Name == "close" {
			if _, isB := r.info.Uses[id].(*types.Builtin); isB {
				r.cs["close"]++
				r.needV["vrt"] = true
				return "vrt.Close(" + r.text(x.Args[0]) + ")", true
			}
		}
		if se, ok := x.Fun.(*ast.SelectorExpr); ok && se.Sel.Name == "Err" && len(x.Args) == 0 {
			if tv, ok := r.info.Types[se.X]; ok && isCtx(tv.Type) {
				r.cs["ctx.Err"]++
				r.needV["vctx"] = true
				return "vctx.Err(" + r.text(se.X) + ")", true
			}
		}
	case *ast.SelectorExpr:
		if r.isPkg(x.X, "time") && timeSyms[x.Sel.Name] {
			r.cs["time."+x.Sel.Name]++
			r.needV["vtime"] = true
			return "vtime." + x.Sel.Name, true
		}
		if r.isPkg(x.X, "context") && ctxSyms[x.Sel.Name] {
			r.cs["context."+x.Sel.Name]++
			r.needV["vctx"] = true
			return "vctx." + x.Sel.Name, true
		}
	case *ast.RangeStmt:
		tv, ok := r.info.Types[x.X]
		if !ok {
			break
		}
		switch tv.Type.Underlying().(type) {
		case *types.Chan:
			r.errs = append(r.errs, fmt.Sprintf("%s: range over channel unsupported in spike", r.fset.Position(x.Pos())))
		case *types.Map:
			return r.rewriteMapRange(x), true
		}
	}
	return "", false
}

func blank(e ast.Expr) bool {
	if e == nil {
		return true
	}
	id, ok := e.(*ast.Ident)
	return ok && id.Name == "_"
}

func (r *rw) rewriteMapRange(x *ast.RangeStmt) string {
	r.cs["maprange"]++
	r.needV["vrt"] = true
	r.selN++
	k := fmt.Sprintf("_vk%d", r.selN)
	m := r.text(x.X)
	switch x.X.(type) {
	case *ast.Ident, *ast.SelectorExpr:
	default:
		r.errs = append(r.errs, fmt.Sprintf("%s: map range over non-trivial expression", r.fset.Position(x.Pos())))
	}
	tok := x.Tok.String()
	var b strings.Builder
	fmt.Fprintf(&b, "for _, %s := range vrt.MapKeys(%s) { ", k, m)
	if !blank(x.Value) {
		fmt.Fprintf(&b, "_vv%d, _vok%d := %s[%s]; if !_vok%d { continue }; %s %s _vv%d; ", r.selN, r.selN, m, k, r.selN, r.text(x.Value), tok, r.selN)
	} else {
		fmt.Fprintf(&b, "if _, _vok%d := %s[%s]; !_vok%d { continue }; ", r.selN, m, k, r.selN)
	}
	if !blank(x.Key) {
		fmt.Fprintf(&b, "%s %s %s; ", r.text(x.Key), tok, k)
	}
	b.WriteString("\n")
	b.WriteString(r.stmts(x.Body.List))
	b.WriteString("}")
	return b.String()
}

func (r *rw) rewriteSelect(x *ast.SelectStmt) string {
	r.cs["select"]++
	r.needV["vrt"] = true
	r.selN++
	id := r.selN
	var decl, body strings.Builder
	var names []string
	hasDefault := false
	idx := 0
	for _, c := range x.Body.List {
		cc := c.(*ast.CommClause)
		if cc.Comm == nil {
			hasDefault = true
			body.WriteString("default:\n")
			body.WriteString(r.stmts(cc.Body))
			continue
		}
		name := fmt.Sprintf("_vc%d_%d", id, idx)
		names = append(names, name)
		prefix := ""
		switch s := cc.Comm.(type) {
		case *ast.SendStmt:
			fmt.Fprintf(&decl, "%s := vrt.SendCase(%s).With(%s); ", name, r.text(s.Chan), r.text(s.Value))
		case *ast.ExprStmt:
			u := unparen(s.X).(*ast.UnaryExpr)
			fmt.Fprintf(&decl, "%s := vrt.RecvCase(%s); ", name, r.text(u.X))
		case *ast.AssignStmt:
			u := unparen(s.Rhs[0]).(*ast.UnaryExpr)
			fmt.Fprintf(&decl, "%s := vrt.RecvCase(%s); ", name, r.text(u.X))
			if len(s.Lhs) == 1 {
				prefix = fmt.Sprintf("%s %s %s.Value; ", r.text(s.Lhs[0]), s.Tok, name)
			} else {
				prefix = fmt.Sprintf("%s, %s %s %s.Value, %s.OK; ", r.text(s.Lhs[0]), r.text(s.Lhs[1]), s.Tok, name, name)
			}
		default:
			r.errs = append(r.errs, fmt.Sprintf("%s: unknown comm clause %T", r.fset.Position(cc.Pos()), cc.Comm))
		}
		fmt.Fprintf(&body, "case %d: %s\n", idx, prefix)
		body.WriteString(r.stmts(cc.Body))
		idx++
	}
	if !hasDefault {
		body.WriteString("default: panic(\"vrt: impossible select index\")\n")
	}
	return fmt.Sprintf("{ %sswitch vrt.Select(%v%s) {\n%s} }", decl.String(), hasDefault, prependComma(names), body.String())
}

func prependComma(n []string) string {
	if len(n) == 0 {
		return ""
	}
	return ", " + strings.Join(n, ", ")
}

func unparen(e ast.Expr) ast.Expr {
	for {
		p, ok := e.(*ast.ParenExpr)
		if !ok {
			return e
		}
		e = p.X
	}
}

var importMap = map[string][2]string{
	`"sync"`:                                 {"sync", `"verif.local/vrt/vsync"`},
	`"sync/atomic"`:                          {"atomic", `"verif.local/vrt/vatomic"`},
	`"math/rand"`:                            {"rand", `"verif.local/vrt/vrand"`},
	`"github.com/siderolabs/gen/concurrent"`: {"concurrent", `"verif.local/vrt/vconcurrent"`},
}

func (r *rw) file2(f *ast.File) string {
	// mark two-value receive contexts
	ast.Inspect(f, func(n ast.Node) bool {
		switch s := n.(type) {
		case *ast.AssignStmt:
			if len(s.Lhs) == 2 && len(s.Rhs) == 1 {
				if u, ok := unparen(s.Rhs[0]).(*ast.UnaryExpr); ok && u.Op == token.ARROW {
					r.two[u] = true
				}
			}
		case *ast.ValueSpec:
			if len(s.Names) == 2 && len(s.Values) == 1 {
				if u, ok := unparen(s.Values[0]).(*ast.UnaryExpr); ok && u.Op == token.ARROW {
					r.two[u] = true
				}
			}
		}
		return true
	})
	var b strings.Builder
	// header up to end of package name
	b.Write(r.src[:r.off(f.Name.End())])
	hdr := b.Len()
	_ = hdr
	var rest strings.Builder
	cur := r.off(f.Name.End())
	usesTime, usesCtx := false, false
	for _, d := range f.Decls {
		rest.Write(r.src[cur:r.off(d.Pos())])
		if gd, ok := d.(*ast.GenDecl); ok && gd.Tok == token.IMPORT {
			s := r.orig(gd)
			for _, sp := range gd.Specs {
				is := sp.(*ast.ImportSpec)
				if m, ok := importMap[is.Path.Value]; ok && (is.Path.Value != `"math/rand"` || strings.Contains(r.pkgPath, "cenkalti/backoff")) {
					name := m[0]
					if is.Name != nil {
						name = is.Name.Name
					}
					s = strings.Replace(s, r.orig(is), name+" "+m[1], 1)
					r.cs["import "+is.Path.Value]++
				}
				if is.Path.Value == `"time"` && is.Name == nil {
					usesTime = true
				}
				if is.Path.Value == `"context"` && is.Name == nil {
					usesCtx = true
				}
			}
			rest.WriteString(s)
		} else {
			rest.WriteString(r.text(d))
		}
		cur = r.off(d.End())
	}
	rest.Write(r.src[cur:])
	for _, v := range []string{"vrt", "vtime", "vctx"} {
		if r.needV[v] {
			p := "verif.local/vrt"
			if v != "vrt" {
				p += "/" + v
			}
			fmt.Fprintf(&b, "; import %s %q", v, p)
		}
	}
	b.WriteString(rest.String())
	if usesTime {
		b.WriteString("\nvar _ time.Duration\n")
	}
	if usesCtx {
		b.WriteString("\nvar _ context.Context\n")
	}
	return b.String()
}

func main() {
	outDir := os.Args[1]
	var targets []string
	facades := map[string]string{} // facade source dir -> destination root
	for _, a := range os.Args[2:] {
		if strings.HasPrefix(a, "facade=") {
			kv := strings.SplitN(strings.TrimPrefix(a, "facade="), ":", 2)
			facades[kv[0]] = kv[1]
			continue
		}
		targets = append(targets, a)
	}
	if err := os.MkdirAll(outDir, 0o755); err != nil {
		panic(err)
	}
	cmd := exec.Command("go", append([]string{"list", "-tags", "verif", "-export", "-deps", "-json=ImportPath,Export,Dir,GoFiles"}, targets...)...)
	cmd.Stderr = os.Stderr
	out, err := cmd.Output()
	if err != nil {
		panic(err)
	}
	pkgs := map[string]*listPkg{}
	dec := json.NewDecoder(bytes.NewReader(out))
	for {
		var p listPkg
		if err := dec.Decode(&p); err == io.EOF {
			break
		} else if err != nil {
			panic(err)
		}
		pkgs[p.ImportPath] = &p
	}
	tset := map[string]bool{}
	for _, t := range targets {
		tset[t] = true
	}
	lookup := func(path string) (io.ReadCloser, error) {
		p, ok := pkgs[path]
		if !ok || p.Export == "" {
			return nil, fmt.Errorf("no export data for %s", path)
		}
		return os.Open(p.Export)
	}
	overlay := map[string]string{}
	total := census{}
	failed := false
	for _, t := range targets {
		p := pkgs[t]
		if p == nil {
			panic("target not listed: " + t)
		}
		fset := token.NewFileSet()
		var files []*ast.File
		srcs := map[*ast.File][]byte{}
		for _, gf := range p.GoFiles {
			path := filepath.Join(p.Dir, gf)
			src, err := os.ReadFile(path)
			if err != nil {
				panic(err)
			}
			f, err := parser.ParseFile(fset, path, src, parser.ParseComments|parser.SkipObjectResolution)
			if err != nil {
				panic(err)
			}
			files = append(files, f)
			srcs[f] = src
		}
		info := &types.Info{Types: map[ast.Expr]types.TypeAndValue{}, Uses: map[*ast.Ident]types.Object{}}
		conf := types.Config{Importer: importer.ForCompiler(fset, "gc", lookup), Error: func(err error) { fmt.Fprintln(os.Stderr, "typecheck:", err) }}
		if _, err := conf.Check(t, fset, files, info); err != nil {
			fmt.Fprintln(os.Stderr, "typecheck failed for", t, err)
			failed = true
			continue
		}
		for _, f := range files {
			r := &rw{pkgPath: t, fset: fset, src: srcs[f], file: fset.File(f.Pos()), info: info, two: map[ast.Node]bool{}, cs: census{}, needV: map[string]bool{}}
			res := r.file2(f)
			for _, e := range r.errs {
				fmt.Fprintln(os.Stderr, "UNSUPPORTED:", e)
				failed = true
			}
			n := 0
			for k, v := range r.cs {
				total[k] += v
				n += v
			}
			if n == 0 {
				continue
			}
			name := fset.Position(f.Pos()).Filename
			dst := filepath.Join(outDir, strings.ReplaceAll(strings.TrimPrefix(name, "/"), "/", "__"))
			if err := os.WriteFile(dst, []byte(res), 0o644); err != nil {
				panic(err)
			}
			overlay[name] = dst
		}
	}
	nFacade := 0
	for srcRoot, dstRoot := range facades {
		filepath.Walk(srcRoot, func(path string, fi os.FileInfo, err error) error {
			if err != nil || fi.IsDir() || !strings.HasSuffix(path, ".go") {
				return nil
			}
			rel, _ := filepath.Rel(srcRoot, path)
			abs, _ := filepath.Abs(path)
			overlay[filepath.Join(dstRoot, rel)] = abs
			nFacade++
			return nil
		})
	}
	cj, _ := json.MarshalIndent(map[string]any{"sites": total, "files_rewritten": len(overlay) - nFacade, "facade_files": nFacade, "packages": targets}, "", " ")
	if err := os.WriteFile(filepath.Join(outDir, "census.json"), cj, 0o644); err != nil {
		panic(err)
	}
	ov, _ := json.MarshalIndent(map[string]any{"Replace": overlay}, "", " ")
	if err := os.WriteFile(filepath.Join(outDir, "overlay.json"), ov, 0o644); err != nil {
		panic(err)
	}
	keys := make([]string, 0, len(total))
	for k := range total {
		keys = append(keys, k)
	}
	sort.Strings(keys)
	for _, k := range keys {
		fmt.Printf("%-28s %d\n", k, total[k])
	}
	fmt.Println("files rewritten:", len(overlay))
	if failed {
		os.Exit(1)
	}
}
