// Package racepass runs harness-like bodies free-running (passthrough mode, real Go scheduler) so that
// `go test -race` can observe unsynchronised accesses, which the cooperative scheduler cannot.
package racepass

import (
	"context"
	"fmt"
	"sync"
	"testing"
	"time"

	"go.uber.org/zap"

	"github.com/cosi-project/runtime/pkg/controller"
	"github.com/cosi-project/runtime/pkg/controller/conformance"
	"github.com/cosi-project/runtime/pkg/controller/runtime"
	"github.com/cosi-project/runtime/pkg/controller/runtime/options"
	"github.com/cosi-project/runtime/pkg/resource"
	"github.com/cosi-project/runtime/pkg/state"
	"github.com/cosi-project/runtime/pkg/state/impl/inmem"
	"github.com/cosi-project/runtime/pkg/state/impl/namespaced"
	"verif.local/harness/hx"
	"verif.local/harness/px"
)

func TestHelpersContention(t *testing.T) {
	for it := 0; it < 200; it++ {
		ctx := context.Background()
		st := state.WrapCore(namespaced.NewState(inmem.Build))
		if err := st.Create(ctx, conformance.NewIntResource(hx.NS, "r", 1)); err != nil {
			t.Fatal(err)
		}
		var wg sync.WaitGroup
		for i := 0; i < 4; i++ {
			wg.Add(1)
			go func() {
				defer wg.Done()
				switch i {
				case 0:
					st.AddFinalizer(ctx, hx.IntPtr("r"), fmt.Sprint("f", i)) //nolint:errcheck
				case 1:
					st.Modify(ctx, conformance.NewIntResource(hx.NS, "r", 1), func(r resource.Resource) error { //nolint:errcheck
						r.Metadata().Labels().Set("k", "v")
						return nil
					})
				case 2:
					st.Teardown(ctx, hx.IntPtr("r")) //nolint:errcheck
				case 3:
					st.List(ctx, hx.IntKind()) //nolint:errcheck
				}
			}()
		}
		wg.Wait()
	}
}

func TestWatchers(t *testing.T) {
	for it := 0; it < 50; it++ {
		ctx, cancel := context.WithCancel(context.Background())
		st := state.WrapCore(inmem.NewStateWithOptions(inmem.WithHistoryInitialCapacity(2), inmem.WithHistoryMaxCapacity(4), inmem.WithHistoryGap(1))(hx.NS))
		var wg sync.WaitGroup
		for w := 0; w < 3; w++ {
			ch := make(chan state.Event)
			if w == 0 {
				st.Watch(ctx, hx.IntPtr("a"), ch) //nolint:errcheck
			} else {
				st.WatchKind(ctx, hx.IntKind(), ch, state.WithBootstrapContents(w == 2)) //nolint:errcheck
			}
			wg.Add(1)
			go func() {
				defer wg.Done()
				for {
					select {
					case <-ctx.Done():
						return
					case ev := <-ch:
						if ev.Resource != nil {
							_ = ev.Resource.Metadata().ID()
						}
					}
				}
			}()
		}
		r := conformance.NewIntResource(hx.NS, "a", 0)
		st.Create(ctx, r) //nolint:errcheck
		for i := 0; i < 10; i++ {
			st.UpdateWithConflicts(ctx, r.Metadata(), func(x resource.Resource) error { //nolint:errcheck
				x.(*conformance.IntResource).SetValue(i)
				return nil
			})
		}
		time.Sleep(2 * time.Millisecond)
		cancel()
		wg.Wait()
	}
}

func TestRuntime(t *testing.T) {
	for it := 0; it < 10; it++ {
		ctx, cancel := context.WithCancel(context.Background())
		st := state.WrapCore(namespaced.NewState(inmem.Build))
		rt, err := runtime.NewRuntime(st, zap.NewNop(), options.WithMetrics(false), options.WithCachedResource(hx.NS, conformance.IntResourceType))
		if err != nil {
			t.Fatal(err)
		}
		for i := 0; i < 2; i++ {
			p := &px.Probe{NameV: fmt.Sprint("c", i), InputsV: []controller.Input{{Namespace: hx.NS, Type: conformance.IntResourceType, Kind: controller.InputWeak}}}
			p.OnEvent = func(ctx context.Context, r controller.Runtime, _ int) error {
				r.List(ctx, hx.IntKind()) //nolint:errcheck
				return nil
			}
			if err := rt.RegisterController(p); err != nil {
				t.Fatal(err)
			}
		}
		qp := &px.QProbe{NameV: "q", SettingsV: controller.QSettings{Inputs: []controller.Input{{Namespace: hx.NS, Type: conformance.IntResourceType, Kind: controller.InputQPrimary}}}}
		qp.OnReconcile = func(ctx context.Context, r controller.QRuntime, p resource.Pointer) error {
			r.Get(ctx, p) //nolint:errcheck
			return nil
		}
		if err := rt.RegisterQController(qp); err != nil {
			t.Fatal(err)
		}
		done := make(chan struct{})
		go func() { rt.Run(ctx); close(done) }() //nolint:errcheck
		r := conformance.NewIntResource(hx.NS, "a", 0)
		st.Create(ctx, r) //nolint:errcheck
		for i := 0; i < 20; i++ {
			st.UpdateWithConflicts(ctx, r.Metadata(), func(x resource.Resource) error { //nolint:errcheck
				x.(*conformance.IntResource).SetValue(i)
				return nil
			})
		}
		time.Sleep(20 * time.Millisecond)
		cancel()
		<-done
	}
}
