// Harness C11: gRPC transparency (remote state == wrapped state) and server robustness.
package main

import (
	"context"
	"fmt"
	"io"
	"regexp"
	"strings"
	"time"

	"github.com/cosi-project/runtime/api/v1alpha1"
	"github.com/cosi-project/runtime/pkg/controller/conformance"
	"github.com/cosi-project/runtime/pkg/resource"
	"github.com/cosi-project/runtime/pkg/state"
	"github.com/cosi-project/runtime/pkg/state/impl/inmem"
	"github.com/cosi-project/runtime/pkg/state/impl/namespaced"
	"github.com/cosi-project/runtime/pkg/state/protobuf/client"
	"github.com/cosi-project/runtime/pkg/state/protobuf/server"
	"verif.local/explore"
	"verif.local/harness/hx"
	"verif.local/harness/lb"
	"verif.local/harness/wx"
	"verif.local/vrt"
	"verif.local/vrt/vctx"
)

// ---------------------------------------------------------------- differential twin

type side struct {
	name string
	st   state.State
	lbc  *lb.Client
}

// busy is a backend with a second writer: right after every successful Create/Update of a resource another
// party commits an update of the same resource (the deterministic form of "another client wrote in between").
// The caller's write-back must still describe the caller's own write, on both sides.
type busy struct {
	state.CoreState
}

func (b busy) other(ctx context.Context, r resource.Resource) {
	cur, err := b.CoreState.Get(ctx, r.Metadata())
	if err != nil {
		return
	}
	if ir, ok := cur.(*conformance.IntResource); ok {
		ir.SetValue(ir.Value() + 100)
	}
	b.CoreState.Update(ctx, cur, state.WithUpdateOwner(cur.Metadata().Owner()), state.WithExpectedPhaseAny()) //nolint:errcheck
}

func (b busy) Create(ctx context.Context, r resource.Resource, opts ...state.CreateOption) error {
	err := b.CoreState.Create(ctx, r, opts...)
	if err == nil {
		b.other(ctx, r)
	}
	return err
}

func (b busy) Update(ctx context.Context, r resource.Resource, opts ...state.UpdateOption) error {
	err := b.CoreState.Update(ctx, r, opts...)
	if err == nil {
		b.other(ctx, r)
	}
	return err
}

var busyBackend bool // set per scenario (scenarios of this harness run sequentially in one process each)

func newSides(noNative bool) [2]*side {
	var dcore, backend state.CoreState = namespaced.NewState(inmem.Build), namespaced.NewState(inmem.Build)
	if busyBackend {
		dcore, backend = busy{dcore}, busy{backend}
	}
	direct := &side{name: "direct", st: state.WrapCore(dcore)}
	c := lb.New(server.NewState(backend))
	c.NoNative = noNative
	remote := &side{name: "remote", st: state.WrapCore(client.NewAdapter(c)), lbc: c}
	return [2]*side{direct, remote}
}

type opT struct {
	kind  string
	id    string
	owner string
	ver   string // cur prev
	exp   string // run td any
	chg   string // val td +f -f label
}

func (o opT) String() string {
	switch o.kind {
	case "update":
		return fmt.Sprintf("update %s ver=%s own=%q exp=%s chg=%s", o.id, o.ver, o.owner, o.exp, o.chg)
	}
	return fmt.Sprintf("%s %s own=%q", o.kind, o.id, o.owner)
}

func alphabet(rich bool) []opT {
	var out []opT
	owners := []string{"", "o1"}
	for _, ow := range owners {
		out = append(out, opT{kind: "create", id: "a", owner: ow}, opT{kind: "destroy", id: "a", owner: ow},
			opT{kind: "teardown", id: "a", owner: ow}, opT{kind: "tdd", id: "a", owner: ow})
	}
	out = append(out, opT{kind: "create", id: "b"}, opT{kind: "addfin", id: "a"}, opT{kind: "rmfin", id: "a"})
	for _, ow := range owners {
		for _, ver := range []string{"cur", "prev"} {
			for _, exp := range []string{"run", "td", "any"} {
				for _, chg := range []string{"val", "td", "+f", "-f", "label"} {
					if !rich && (ver == "prev" || exp == "td") && chg != "val" {
						continue
					}
					out = append(out, opT{kind: "update", id: "a", owner: ow, ver: ver, exp: exp, chg: chg})
				}
			}
		}
	}
	return out
}

type obs struct {
	cls   string
	extra string
}

func errObs(err error) string {
	if err == nil {
		return "ok"
	}
	c := hx.ErrClass(err)
	if strings.HasPrefix(c, "other:") {
		c = "other"
	}
	q := fmt.Sprintf("%v%v%v", state.IsConflictError(err, state.WithResourceType(conformance.IntResourceType)), state.IsConflictError(err, state.WithResourceNamespace(hx.NS)),
		state.IsConflictError(err, state.WithResourceType("zzz")))
	return c + "/" + q
}

var fixedTime = time.Date(2020, 2, 2, 2, 2, 2, 0, time.UTC)

// fresh builds a harness-side object with deterministic timestamps (NewMetadata stamps the wall clock).
func fresh(id string) *conformance.IntResource {
	r := conformance.NewIntResource(hx.NS, id, 1)
	r.Metadata().SetCreated(fixedTime)
	r.Metadata().SetUpdated(fixedTime)
	return r
}

func meta(r resource.Resource) string {
	md := r.Metadata()
	return fmt.Sprintf("%s upd=%v", hx.Snap(r), md.Updated().UnixNano())
}

// apply runs o on one side; blocking calls are run in a goroutine and observed at quiescence.
func apply(ctx context.Context, s *side, o opT) string {
	st := s.st
	p := hx.IntPtr(o.id)
	switch o.kind {
	case "create":
		r := fresh(o.id)
		err := st.Create(ctx, r, state.WithCreateOwner(o.owner))
		return errObs(err) + " obj=" + meta(r)
	case "destroy":
		return errObs(st.Destroy(ctx, p, state.WithDestroyOwner(o.owner)))
	case "teardown":
		ready, err := st.Teardown(ctx, p, state.WithTeardownOwner(o.owner))
		return fmt.Sprintf("%s ready=%v", errObs(err), ready)
	case "addfin":
		return errObs(st.AddFinalizer(ctx, p, "f"))
	case "rmfin":
		return errObs(st.RemoveFinalizer(ctx, p, "f"))
	case "tdd":
		cctx, cancel := context.WithCancel(ctx)
		done, res := false, ""
		vrt.Go(func() {
			res = errObs(st.TeardownAndDestroy(cctx, p, state.WithTeardownAndDestroyOwner(o.owner)))
			done = true
		})
		vrt.WaitQuiescent()
		if !done {
			cancel()
			vrt.WaitQuiescent()
			return "blocked"
		}
		cancel()
		return res
	case "update":
		var r *conformance.IntResource
		if cur, err := st.Get(ctx, p); err == nil {
			r = cur.(*conformance.IntResource)
		} else {
			r = fresh(o.id)
			v, _ := resource.ParseVersion("1")
			r.Metadata().SetVersion(v)
		}
		if o.ver == "prev" {
			v, _ := resource.ParseVersion(fmt.Sprint(r.Metadata().Version().Value() + 5))
			r.Metadata().SetVersion(v)
		}
		switch o.chg {
		case "val":
			r.SetValue(r.Value() + 1)
		case "td":
			r.Metadata().SetPhase(resource.PhaseTearingDown)
		case "+f":
			r.Metadata().Finalizers().Add("f")
		case "-f":
			r.Metadata().Finalizers().Remove("f")
		case "label":
			r.Metadata().Labels().Set("l", fmt.Sprint(r.Metadata().Version().Value()%3))
		}
		opts := []state.UpdateOption{state.WithUpdateOwner(o.owner)}
		switch o.exp {
		case "td":
			opts = append(opts, state.WithExpectedPhase(resource.PhaseTearingDown))
		case "any":
			opts = append(opts, state.WithExpectedPhaseAny())
		}
		err := st.Update(ctx, r, opts...)
		return errObs(err) + " obj=" + meta(r)
	}
	panic(o.kind)
}

// observe runs the observation suite on one side and returns a rendering.
func observe(ctx context.Context, s *side) string {
	var b strings.Builder
	for _, id := range []string{"a", "b"} {
		r, err := s.st.Get(ctx, hx.IntPtr(id))
		if err != nil {
			fmt.Fprintf(&b, "get %s: %s; ", id, errObs(err))
		} else {
			fmt.Fprintf(&b, "get %s: %s created=%v; ", id, meta(r), r.Metadata().Created().UnixNano())
		}
	}
	lists := map[string][]state.ListOption{
		"all":       nil,
		"l=0":       {state.WithLabelQuery(resource.LabelEqual("l", "0"))},
		"!l":        {state.WithLabelQuery(resource.LabelExists("l", resource.NotMatches))},
		"l<2 | l=2": {state.WithLabelQuery(resource.LabelLTNumeric("l", "2")), state.WithLabelQuery(resource.LabelEqual("l", "2"))},
		"id~^a":     {state.WithIDQuery(resource.IDRegexpMatch(regexp.MustCompile("^a")))},
		"l!=0 & l":  {state.WithLabelQuery(resource.LabelEqual("l", "0", resource.NotMatches), resource.LabelExists("l"))},
		"!l & !zz":  {state.WithLabelQuery(resource.LabelExists("l", resource.NotMatches), resource.LabelExists("zz", resource.NotMatches))},
		"!zz & l<9": {state.WithLabelQuery(resource.LabelExists("zz", resource.NotMatches), resource.LabelLTNumeric("l", "9"))},
	}
	for _, k := range []string{"all", "l=0", "!l", "l<2 | l=2", "id~^a", "l!=0 & l", "!l & !zz", "!zz & l<9"} {
		l, err := s.st.List(ctx, hx.IntKind(), lists[k]...)
		fmt.Fprintf(&b, "list[%s]: %s %s; ", k, errObs(err), hx.SnapList(l))
	}
	// watches: established now, drained at quiescence
	type w struct {
		name string
		ch   chan state.Event
		ach  chan []state.Event
		err  error
		got  []string
	}
	wctx, cancel := context.WithCancel(ctx)
	ws := []*w{{name: "watch-a"}, {name: "kind-bootstrap"}, {name: "agg-tail2"}, {name: "kind-label"}, {name: "watch-a-tail1"}, {name: "agg-2terms"}, {name: "agg-id~^a"}, {name: "kind-id~^b"}, {name: "agg-id+label"}, {name: "kind-contents+bookmark"}, {name: "agg-contents+bookmark"}, {name: "agg-bookmark-only"}, {name: "kind-contents+bookmark+label"}}
	for _, x := range ws {
		x.ch, x.ach = make(chan state.Event), make(chan []state.Event)
	}
	ws[0].err = s.st.Watch(wctx, hx.IntPtr("a"), ws[0].ch)
	ws[1].err = s.st.WatchKind(wctx, hx.IntKind(), ws[1].ch, state.WithBootstrapContents(true))
	ws[2].err = s.st.WatchKindAggregated(wctx, hx.IntKind(), ws[2].ach, state.WithKindTailEvents(2))
	ws[3].err = s.st.WatchKind(wctx, hx.IntKind(), ws[3].ch, state.WithBootstrapContents(true), state.WatchWithLabelQuery(resource.LabelExists("l")))
	ws[4].err = s.st.Watch(wctx, hx.IntPtr("a"), ws[4].ch, state.WithTailEvents(1))
	ws[5].err = s.st.WatchKindAggregated(wctx, hx.IntKind(), ws[5].ach, state.WithBootstrapContents(true), state.WatchWithLabelQuery(resource.LabelExists("zz", resource.NotMatches), resource.LabelExists("l")))
	ws[6].err = s.st.WatchKindAggregated(wctx, hx.IntKind(), ws[6].ach, state.WithBootstrapContents(true), state.WatchWithIDQuery(resource.IDRegexpMatch(regexp.MustCompile("^a"))))
	ws[7].err = s.st.WatchKind(wctx, hx.IntKind(), ws[7].ch, state.WithBootstrapContents(true), state.WatchWithIDQuery(resource.IDRegexpMatch(regexp.MustCompile("^b"))))
	ws[8].err = s.st.WatchKindAggregated(wctx, hx.IntKind(), ws[8].ach, state.WithKindTailEvents(3), state.WatchWithIDQuery(resource.IDRegexpMatch(regexp.MustCompile("^a"))), state.WatchWithLabelQuery(resource.LabelExists("l")))
	// option combinations (seed c11i: each bootstrap option alone was covered, both together were not)
	ws[9].err = s.st.WatchKind(wctx, hx.IntKind(), ws[9].ch, state.WithBootstrapContents(true), state.WithBootstrapBookmark(true))
	ws[10].err = s.st.WatchKindAggregated(wctx, hx.IntKind(), ws[10].ach, state.WithBootstrapContents(true), state.WithBootstrapBookmark(true))
	ws[11].err = s.st.WatchKindAggregated(wctx, hx.IntKind(), ws[11].ach, state.WithBootstrapBookmark(true))
	ws[12].err = s.st.WatchKind(wctx, hx.IntKind(), ws[12].ch, state.WithBootstrapBookmark(true), state.WithBootstrapContents(true), state.WatchWithLabelQuery(resource.LabelExists("l")))
	for _, x := range ws {
		x := x
		if x.err != nil {
			continue
		}
		vrt.Go(func() {
			for {
				rc, ra := vrt.RecvCase((<-chan state.Event)(x.ch)), vrt.RecvCase((<-chan []state.Event)(x.ach))
				switch vrt.Select(false, vrt.RecvCase(wctx.Done()), rc, ra) {
				case 0:
					return
				case 1:
					x.got = append(x.got, fmt.Sprintf("%v bm=%x", wx.Render(rc.Value), []byte(rc.Value.Bookmark)))
				case 2:
					var evs []string
					for _, ev := range ra.Value {
						evs = append(evs, fmt.Sprintf("%v bm=%x", wx.Render(ev), []byte(ev.Bookmark)))
					}
					x.got = append(x.got, "["+strings.Join(evs, ", ")+"]")
				}
			}
		})
	}
	vrt.WaitQuiescent()
	cancel()
	vrt.WaitQuiescent()
	for _, x := range ws {
		fmt.Fprintf(&b, "%s: %s %v; ", x.name, errObs(x.err), x.got)
	}
	return b.String()
}

// runHistory applies hist to both sides inside one controlled execution and compares every step.
func runHistory(x *explore.X, hist []opT, noNative bool, fullObserve bool) (canon string, steps int, ok bool) {
	ok = true
	res := vrt.Run(nil, vrt.Options{}, func() {
		ctx := context.Background()
		sides := newSides(noNative)
		for i, o := range hist {
			a, b := apply(ctx, sides[0], o), apply(ctx, sides[1], o)
			if a != b {
				ok = false
				x.FailKey("diff/"+o.kind, "after %v: %v differs: direct %q, remote %q", hist[:i], o, a, b)
				return
			}
		}
		if fullObserve {
			a, b := observe(ctx, sides[0]), observe(ctx, sides[1])
			if a != b {
				ok = false
				x.FailKey("diff/observe", "after %v: observations differ:\n direct: %s\n remote: %s", hist, a, b)
				return
			}
			canon = a
		} else {
			l, _ := sides[0].st.List(ctx, hx.IntKind())
			canon = hx.SnapList(l)
		}
		if noNative {
			if n := sides[1].lbc.Calls["Teardown"]; n > 1 {
				ok = false
				x.FailKey("diff/sticky", "after %v: %d native Teardown attempts against a server without the RPC (fallback must be sticky)", hist, n)
			}
			if n := sides[1].lbc.Calls["TeardownAndDestroy"]; n > 1 {
				ok = false
				x.FailKey("diff/sticky", "after %v: %d native TeardownAndDestroy attempts against a server without the RPC", hist, n)
			}
		}
	})
	for _, p := range res.Panics {
		ok = false
		x.FailKey("diff/panic", "after %v: panic: %s", hist, p)
	}
	if len(res.Live) > 0 && ok {
		ok = false
		x.FailKey("diff/leak", "after %v: goroutines alive at the end: %v", hist, res.Live)
	}
	return canon, res.Steps, ok
}

func diffScenario(first opT, depth int, noNative, rich bool) explore.Scenario {
	fl := "native"
	if noNative {
		fl = "fallback"
	}
	return explore.Scenario{
		Name:       fmt.Sprintf("diff/%s/first=%v/depth%d", fl, first, depth),
		Desc:       fmt.Sprintf("BFS (depth %d) over operation sequences starting with %v applied to WrapCore(inmem) and to WrapCore(client adapter -> in-process transport -> server -> inmem) (%s teardown RPCs); every step's result, error class (all predicates, qualifiers), write-back and, per state, reads, filtered lists and 5 watch streams are compared", depth, first, fl),
		Sequential: true,
		Body: func(x *explore.X) {
			alpha := alphabet(rich)
			seen := map[string]bool{}
			frontier := [][]opT{{first}}
			states, trans, steps := 0, 0, 0
			for d := 1; d <= depth && len(frontier) > 0; d++ {
				var next [][]opT
				for _, h := range frontier {
					canon, st, ok := runHistory(x, h, noNative, true)
					trans++
					steps += st
					if !ok {
						if x.Failed() {
							goto done
						}
						continue
					}
					if seen[canon] {
						continue
					}
					seen[canon] = true
					states++
					if states <= 2 {
						x.Sample(map[string]any{"history": fmt.Sprint(h), "observation": canon})
					}
					if d < depth {
						for _, o := range alpha {
							next = append(next, append(append([]opT{}, h...), o))
						}
					}
				}
				frontier = next
			}
		done:
			x.Add("states", states)
			x.Add("transitions", trans)
			x.Add("evaluations", trans)
			x.Add("distinct_nontrivial", states)
			x.Add("traces_validated_against_impl", trans)
			x.Add("scheduler_steps", steps)
			x.Outcome("states=%d transitions=%d", states, trans)
		},
	}
}

// ---------------------------------------------------------------- server robustness (wire-level requests)

func robustScenario() explore.Scenario {
	return explore.Scenario{
		Name:       "wire/malformed-requests",
		Desc:       "every RPC of the real server.State called with every combination of absent/empty/valid/invalid request fields (nil options, every label operator with 0/1/2 values, invalid regexp, unknown phase/operator, conflicting watch options, negative tail, garbage resources); a panic means the server process would crash",
		Sequential: true,
		Body: func(x *explore.X) {
			n, errs := 0, 0
			backend := namespaced.NewState(inmem.Build)
			ctx := context.Background()
			pre := conformance.NewIntResource(hx.NS, "a", 1)
			pre.Metadata().Labels().Set("l", "1")
			if err := backend.Create(ctx, pre); err != nil {
				panic(err)
			}
			srv := server.NewState(backend)
			call := func(name string, f func() error) {
				n++
				defer func() {
					if r := recover(); r != nil {
						key := "wire/panic/" + strings.SplitN(name, " ", 2)[0]
						x.FailKey(key, "request %s crashed the server: %v", name, r)
					}
				}()
				if err := f(); err != nil {
					errs++
				}
			}
			// resources
			good, _ := marshalRes(conformance.NewIntResource(hx.NS, "n", 1))
			resources := map[string]*v1alpha1.Resource{"nil": nil, "empty": {}, "valid": good,
				"no-spec": {Metadata: good.Metadata}, "no-meta": {Spec: good.Spec},
				"bad-version": {Metadata: &v1alpha1.Metadata{Namespace: hx.NS, Type: string(conformance.IntResourceType), Id: "x", Version: "zz", Phase: "running"}, Spec: good.Spec},
				"bad-phase":   {Metadata: &v1alpha1.Metadata{Namespace: hx.NS, Type: string(conformance.IntResourceType), Id: "x", Version: "1", Phase: "nope"}, Spec: good.Spec}}
			phases := map[string]*string{"nil": nil, "running": strp("running"), "tearingDown": strp("tearingDown"), "bogus": strp("bogus"), "empty": strp("")}
			for rn, r := range resources {
				for _, withOpts := range []bool{false, true} {
					var co *v1alpha1.CreateOptions
					if withOpts {
						co = &v1alpha1.CreateOptions{Owner: "o"}
					}
					call(fmt.Sprintf("Create resource=%s options=%v", rn, withOpts), func() error {
						_, err := srv.Create(ctx, &v1alpha1.CreateRequest{Resource: r, Options: co})
						return err
					})
					for pn, ph := range phases {
						var uo *v1alpha1.UpdateOptions
						if withOpts {
							uo = &v1alpha1.UpdateOptions{Owner: "", ExpectedPhase: ph}
						} else if pn != "nil" {
							continue
						}
						call(fmt.Sprintf("Update resource=%s options=%v phase=%s", rn, withOpts, pn), func() error {
							_, err := srv.Update(ctx, &v1alpha1.UpdateRequest{NewResource: r, Options: uo})
							return err
						})
					}
				}
			}
			for _, id := range []string{"", "a", "zz"} {
				for _, ns := range []string{"", hx.NS} {
					for _, typ := range []string{"", string(conformance.IntResourceType), "unknown/type"} {
						for _, withOpts := range []bool{false, true} {
							name := fmt.Sprintf("ns=%q type=%q id=%q options=%v", ns, typ, id, withOpts)
							call("Get "+name, func() error {
								req := &v1alpha1.GetRequest{Namespace: ns, Type: typ, Id: id}
								if withOpts {
									req.Options = &v1alpha1.GetOptions{}
								}
								_, err := srv.Get(ctx, req)
								return err
							})
							call("Destroy "+name, func() error {
								req := &v1alpha1.DestroyRequest{Namespace: ns, Type: typ, Id: id}
								if withOpts {
									req.Options = &v1alpha1.DestroyOptions{Owner: "x"}
								}
								_, err := srv.Destroy(ctx, req)
								return err
							})
							call("Teardown "+name, func() error {
								req := &v1alpha1.TeardownRequest{Namespace: ns, Type: typ, Id: id}
								if withOpts {
									req.Options = &v1alpha1.TeardownOptions{Owner: "x"}
								}
								_, err := srv.Teardown(ctx, req)
								return err
							})
							call("TeardownAndDestroy "+name, func() error {
								req := &v1alpha1.TeardownAndDestroyRequest{Namespace: ns, Type: typ, Id: id}
								if withOpts {
									req.Options = &v1alpha1.TeardownAndDestroyOptions{Owner: "x"}
								}
								_, err := srv.TeardownAndDestroy(ctx, req)
								return err
							})
						}
					}
				}
			}
			// label terms: every operator (incl. unknown) x 0/1/2 values x invert
			var terms []*v1alpha1.LabelTerm
			for op := int32(0); op <= 9; op++ {
				for _, vals := range [][]string{nil, {"1"}, {"1", "x"}} {
					for _, inv := range []bool{false, true} {
						terms = append(terms, &v1alpha1.LabelTerm{Key: "l", Op: v1alpha1.LabelTerm_Operation(op), Value: vals, Invert: inv})
					}
				}
			}
			idqs := map[string]*v1alpha1.IDQuery{"nil": nil, "empty": {}, "valid": {Regexp: "^a"}, "invalid": {Regexp: "("}}
			for ti, t := range terms {
				for qn, idq := range idqs {
					name := fmt.Sprintf("term#%d(op=%d values=%d invert=%v) idquery=%s", ti, t.Op, len(t.Value), t.Invert, qn)
					lq := []*v1alpha1.LabelQuery{{Terms: []*v1alpha1.LabelTerm{t}}, {}, nil}
					call("List "+name, func() error {
						return listOnce(ctx, srv, &v1alpha1.ListRequest{Namespace: hx.NS, Type: string(conformance.IntResourceType), Options: &v1alpha1.ListOptions{LabelQuery: lq, IdQuery: idq}})
					})
					call("Watch "+name, func() error {
						return watchOnce(ctx, srv, &v1alpha1.WatchRequest{Namespace: hx.NS, Type: string(conformance.IntResourceType), ApiVersion: 1, Options: &v1alpha1.WatchOptions{LabelQuery: lq, IdQuery: idq}})
					})
				}
			}
			call("List options=nil", func() error {
				return listOnce(ctx, srv, &v1alpha1.ListRequest{Namespace: hx.NS, Type: string(conformance.IntResourceType)})
			})
			// watch option conflicts
			bookmarks := map[string][]byte{"nil": nil, "empty": {}, "short": {1, 2, 3}, "16zero": make([]byte, 16), "17": make([]byte, 17)}
			for _, id := range []*string{nil, strp(""), strp("a")} {
				for _, boot := range []bool{false, true} {
					for _, bootBm := range []bool{false, true} {
						for _, tail := range []int32{-5, 0, 1, 1000} {
							for bn, bm := range bookmarks {
								for _, agg := range []bool{false, true} {
									for _, api := range []int32{0, 1} {
										for _, withOpts := range []bool{true, false} {
											if !withOpts && (boot || bootBm || tail != 0 || bn != "nil" || agg) {
												continue
											}
											idn := "nil"
											if id != nil {
												idn = fmt.Sprintf("%q", *id)
											}
											name := fmt.Sprintf("Watch id=%s bootstrap=%v bootstrapBookmark=%v tail=%d bookmark=%s aggregated=%v api=%d options=%v", idn, boot, bootBm, tail, bn, agg, api, withOpts)
											call(name, func() error {
												req := &v1alpha1.WatchRequest{Namespace: hx.NS, Type: string(conformance.IntResourceType), Id: id, ApiVersion: api}
												if withOpts {
													req.Options = &v1alpha1.WatchOptions{BootstrapContents: boot, BootstrapBookmark: bootBm, TailEvents: tail, StartFromBookmark: bm, Aggregated: agg}
												}
												return watchOnce(ctx, srv, req)
											})
										}
									}
								}
							}
						}
					}
				}
			}
			x.Add("states", n)
			x.Add("transitions", n)
			x.Add("evaluations", n)
			x.Add("distinct_nontrivial", errs)
			x.Add("traces_validated_against_impl", n)
			x.Sample(map[string]any{"request": "Update resource=valid options=nil", "expect": "error status or normal reply, never a panic"})
			x.Outcome("requests=%d error_replies=%d", n, errs)
		},
	}
}

func strp(s string) *string { return &s }

func marshalRes(r resource.Resource) (*v1alpha1.Resource, error) {
	// through the client-side path: create on a throw-away loopback and capture the request
	var captured *v1alpha1.Resource
	c := lb.New(&capture{f: func(req *v1alpha1.CreateRequest) { captured = req.Resource }})
	client.NewAdapter(c).Create(context.Background(), r) //nolint:errcheck
	return captured, nil
}

type capture struct {
	v1alpha1.UnimplementedStateServer
	f func(*v1alpha1.CreateRequest)
}

func (c *capture) Create(_ context.Context, req *v1alpha1.CreateRequest) (*v1alpha1.CreateResponse, error) {
	c.f(req)
	return nil, fmt.Errorf("captured")
}

// watchOnce establishes a watch stream under the scheduler, reads what is there at quiescence and cancels.
func watchOnce(ctx context.Context, srv v1alpha1.StateServer, req *v1alpha1.WatchRequest) error {
	var rerr error
	var panics []string
	res := vrt.Run(nil, vrt.Options{}, func() {
		wctx, cancel := context.WithCancel(ctx)
		c := lb.New(srv)
		cli, err := c.Watch(wctx, req)
		if err != nil {
			rerr = err
			cancel()
			return
		}
		vrt.Go(func() {
			for {
				if _, err := cli.Recv(); err != nil {
					rerr = err
					return
				}
			}
		})
		vrt.WaitQuiescent()
		cancel()
		vrt.WaitQuiescent()
	})
	panics = res.Panics
	if len(panics) > 0 {
		panic(panics[0])
	}
	return rerr
}

// listOnce runs one List call under the scheduler (so that a handler panic is an observation).
func listOnce(ctx context.Context, srv v1alpha1.StateServer, req *v1alpha1.ListRequest) error {
	var rerr error
	res := vrt.Run(nil, vrt.Options{}, func() {
		c := lb.New(srv)
		cli, err := c.List(ctx, req)
		if err != nil {
			rerr = err
			return
		}
		for {
			if _, err := cli.Recv(); err != nil {
				if err != io.EOF {
					rerr = err
				}
				return
			}
		}
	})
	if len(res.Panics) > 0 {
		panic(res.Panics[0])
	}
	return rerr
}

// overrunScenario: watchers that stop consuming while the history rolls over. Whatever reaches the caller is
// a prefix of the change log, and a stream that lost events ends with Errored - locally and through the
// server and client alike; nothing may crash on the way.
func overrunScenario() explore.Scenario {
	return explore.Scenario{
		Name:       "wire/stalled-watcher-overrun",
		Desc:       "history capacity 2; by-id, by-kind and aggregated watches (direct and through server + client over the in-process transport) whose consumers stall for w = 1..16 writes and then drain: every stream is a prefix of the change log and is complete or ends with Errored; a panic means the server process would crash",
		Sequential: true,
		Body: func(x *explore.X) {
			cases, steps := 0, 0
			erroredSeen := map[bool]int{}
			for _, w := range []int{1, 2, 3, 4, 5, 6, 8, 12, 16} {
				for _, remote := range []bool{false, true} {
					label := fmt.Sprintf("writes=%d remote=%v", w, remote)
					res := vrt.Run(nil, vrt.Options{}, func() {
						ctx, cancel := vctx.WithCancel(context.Background())
						backend := state.WrapCore(inmem.NewStateWithOptions(inmem.WithHistoryInitialCapacity(2), inmem.WithHistoryMaxCapacity(2), inmem.WithHistoryGap(0))(hx.NS))
						st := backend
						if remote {
							st = state.WrapCore(client.NewAdapter(lb.New(server.NewState(backend)), client.WithDisableWatchRetry()))
						}
						if err := backend.Create(ctx, fresh("a")); err != nil {
							panic(err)
						}
						gate := make(chan struct{})
						type wt struct {
							name    string
							got     []string
							errored bool
							after   int
						}
						ws := []*wt{{name: "watch-id"}, {name: "watch-kind"}, {name: "watch-kind-agg"}}
						ch0, ch1, ch2 := make(chan state.Event), make(chan state.Event), make(chan []state.Event)
						if err := st.Watch(ctx, hx.IntPtr("a"), ch0); err != nil {
							panic(err)
						}
						if err := st.WatchKind(ctx, hx.IntKind(), ch1); err != nil {
							panic(err)
						}
						if err := st.WatchKindAggregated(ctx, hx.IntKind(), ch2); err != nil {
							panic(err)
						}
						take := func(t *wt, ev state.Event) {
							switch {
							case t.errored:
								t.after++
							case ev.Type == state.Errored:
								t.errored = true
							default:
								t.got = append(t.got, wx.Render(ev).String())
							}
						}
						vrt.Go(func() {
							vrt.Recv1(gate)
							for {
								r0, r1, r2 := vrt.RecvCase((<-chan state.Event)(ch0)), vrt.RecvCase((<-chan state.Event)(ch1)), vrt.RecvCase((<-chan []state.Event)(ch2))
								switch vrt.Select(false, vrt.RecvCase(ctx.Done()), r0, r1, r2) {
								case 0:
									return
								case 1:
									take(ws[0], r0.Value)
								case 2:
									take(ws[1], r1.Value)
								case 3:
									for _, ev := range r2.Value {
										take(ws[2], ev)
									}
								}
							}
						})
						vrt.WaitQuiescent()
						var log []string // what a never-lagging by-kind watcher would have seen (the by-id one sees "a" first)
						for i := 0; i < w; i++ {
							old, _ := backend.Get(ctx, hx.IntPtr("a"))
							nr, err := backend.UpdateWithConflicts(ctx, hx.IntPtr("a"), func(r resource.Resource) error {
								r.(*conformance.IntResource).SetValue(10 + i)
								return nil
							})
							if err != nil {
								panic(err)
							}
							log = append(log, wx.Render(state.Event{Type: state.Updated, Resource: nr, Old: old}).String())
							vrt.WaitQuiescent()
						}
						vrt.Close(gate)
						vrt.WaitQuiescent()
						for i, t := range ws {
							want := log
							got := t.got
							if i == 0 && len(got) > 0 {
								got = got[1:] // the by-id watch starts with the current state of a
							}
							ok := len(got) <= len(want)
							for k := 0; ok && k < len(got); k++ {
								ok = got[k] == want[k]
							}
							switch {
							case !ok:
								x.FailKey("wire/overrun/order", "%s: %s delivered %v, which is not a prefix of the change log %v", label, t.name, got, want)
							case len(got) < len(want) && !t.errored:
								x.FailKey("wire/overrun/silent", "%s: %s delivered %d of %d events and then went quiet without Errored", label, t.name, len(got), len(want))
							case t.after > 0:
								x.FailKey("wire/overrun/after-errored", "%s: %s delivered %d events after Errored", label, t.name, t.after)
							}
							if t.errored {
								erroredSeen[remote]++
							}
						}
						cancel()
						vrt.WaitQuiescent()
					})
					for _, p := range res.Panics {
						first, _, _ := strings.Cut(p, "\n")
						x.FailKey("wire/overrun/panic", "%s: panic (the process would crash): %s\n%s", label, first, p)
					}
					if len(res.Live) > 0 {
						x.FailKey("wire/overrun/leak", "%s: goroutines alive after cancellation: %v", label, res.Live)
					}
					cases++
					steps += res.Steps
				}
			}
			if erroredSeen[false] == 0 || erroredSeen[true] == 0 {
				x.FailKey("harness/overrun-vacuous", "no stream ever overran (direct %d, remote %d): the scenario does not reach the Errored path", erroredSeen[false], erroredSeen[true])
			}
			x.Add("states", cases)
			x.Add("transitions", steps)
			x.Add("evaluations", cases)
			x.Add("distinct_nontrivial", cases)
			x.Add("traces_validated_against_impl", cases)
			x.Add("overrun_streams_direct", erroredSeen[false])
			x.Add("overrun_streams_remote", erroredSeen[true])
			x.Outcome("cases=%d", cases)
		},
	}
}

func build(tier string) []explore.Scenario {
	depth := 4
	rich := false
	if tier == "thorough" {
		depth, rich = 5, true
	}
	var out []explore.Scenario
	firsts := []opT{{kind: "create", id: "a"}, {kind: "create", id: "a", owner: "o1"}, {kind: "create", id: "b"}, {kind: "destroy", id: "a"}, {kind: "teardown", id: "a"}, {kind: "update", id: "a", ver: "cur", exp: "run", chg: "val"}}
	for _, f := range firsts {
		out = append(out, diffScenario(f, depth, false, rich))
	}
	for _, f := range firsts[:2] {
		out = append(out, diffScenario(f, depth, true, rich))
	}
	for _, f := range firsts[:2] {
		sc := diffScenario(f, depth-1, false, rich)
		sc.Name = strings.Replace(sc.Name, "diff/native/", "diff/native+busy-backend/", 1)
		sc.Desc += "; here a second writer commits an update of the same resource right after every successful Create/Update on both backends: the write-back still describes the caller's own write"
		body := sc.Body
		sc.Body = func(x *explore.X) {
			busyBackend = true
			defer func() { busyBackend = false }()
			body(x)
		}
		out = append(out, sc)
	}
	out = append(out, robustScenario(), overrunScenario())
	return out
}

func main() {
	wx.TombstoneAsResource = true
	explore.Main(explore.Config{
		Property:     "C11",
		RequireShims: true,
		Technique:    "explicit-state BFS over operation sequences applied to a differential twin (direct state vs client adapter -> real marshalling -> server), each history run to exact quiescence on the controlled scheduler; exhaustive enumeration of malformed wire requests against the real server",
		Rule:         "differential: every operation of the alphabet from every distinct observed state up to the depth, both native and fallback teardown paths; wire: full product of request-field variants; non-trivial = distinct states / requests answered with an error status",
		Assume:       []string{"transport = in-process loopback that marshals every message with the generated vtproto code and converts errors with grpc/status (no HTTP/2 stack)", "virtual clock: timestamps are equal on both sides and compared exactly"},
		Extra:        map[string]any{"explanation": "states = distinct full observations (reads, filtered lists, 5 watch streams) reached; transitions = histories executed on both twins; wire part: requests sent"},
	}, build)
}
