// Harness C15: the runtime read cache is coherent with the state and with notifications.
package main

import (
	"context"
	"fmt"
	"regexp"
	"sort"
	"strings"

	"go.uber.org/zap"

	"github.com/cosi-project/runtime/pkg/controller"
	"github.com/cosi-project/runtime/pkg/controller/conformance"
	"github.com/cosi-project/runtime/pkg/controller/runtime"
	"github.com/cosi-project/runtime/pkg/controller/runtime/options"
	"github.com/cosi-project/runtime/pkg/resource"
	"github.com/cosi-project/runtime/pkg/state"
	"verif.local/explore"
	"verif.local/harness/hx"
	"verif.local/harness/px"
	"verif.local/seqx"
	"verif.local/vrt"
	"verif.local/vrt/vctx"
)

const tInt = conformance.IntResourceType

type wop string

func doW(ctx context.Context, st state.State, op wop) {
	f := strings.Fields(string(op))
	p := hx.IntPtr(f[1])
	var err error
	switch f[0] {
	case "create":
		r := conformance.NewIntResource(hx.NS, f[1], 1)
		r.Metadata().Labels().Set("l", "1")
		err = st.Create(ctx, r)
	case "update":
		_, err = st.UpdateWithConflicts(ctx, p, func(r resource.Resource) error {
			r.(*conformance.IntResource).SetValue(r.(*conformance.IntResource).Value() + 1)
			return nil
		}, state.WithExpectedPhaseAny())
	case "unlabel":
		_, err = st.UpdateWithConflicts(ctx, p, func(r resource.Resource) error {
			r.Metadata().Labels().Delete("l")
			return nil
		}, state.WithExpectedPhaseAny())
	case "teardown":
		_, err = st.Teardown(ctx, p)
	case "destroy":
		err = st.Destroy(ctx, p)
	}
	if err != nil {
		panic(fmt.Sprintf("writer op %q: %v", op, err))
	}
}

type read struct {
	who    string
	what   string // "list" or "get <id>"
	lo, hi int    // commit-log length when the call started / returned
	result string
}

type cfg struct {
	name     string
	pre      []wop
	script   []wop
	prologue bool
	readers  int
	nReads   int
	bounds   []int
	teardown string // id whose teardown-bound context the controller obtains in its first reconcile
	// coalesce: the state under the runtime may merge an aggregated batch with the one that follows it (a
	// slow transport): events keep their order, but Bootstrapped is then not the last event of its batch
	coalesce bool
	// viaCached: the writer goes through rt.CachedState() (which forwards writes to the state)
	viaCached bool
	// ctrlGet: the controller also Gets this id through its runtime in every reconcile (a cache miss first, the
	// resource is created and updated by the script)
	ctrlGet string
	// tctxEvery: the controller obtains a new teardown-bound context in every reconcile (not only in the first one,
	// which belongs to the deterministic start-up)
	tctxEvery bool
}

// coalescer forwards aggregated kind watches through a goroutine that may glue a batch to the next one.
type coalescer struct{ state.CoreState }

func (c coalescer) WatchKindAggregated(ctx context.Context, k resource.Kind, ch chan<- []state.Event, opts ...state.WatchKindOption) error {
	in := make(chan []state.Event)
	if err := c.CoreState.WatchKindAggregated(ctx, k, in, opts...); err != nil {
		return err
	}
	vrt.GoNamed("coalescer", func() {
		for {
			r1 := vrt.RecvCase((<-chan []state.Event)(in))
			if vrt.Select(false, vrt.RecvCase(ctx.Done()), r1) == 0 {
				return
			}
			batch := r1.Value
			vrt.Yield() // the transport is slow: what the source produces meanwhile travels in the same batch
			r2 := vrt.RecvCase((<-chan []state.Event)(in))
			if vrt.Select(true, r2) == 0 {
				batch = append(append([]state.Event(nil), batch...), r2.Value...)
			}
			if vrt.Select(false, vrt.RecvCase(ctx.Done()), vrt.SendCase(ch).With(batch)) == 0 {
				return
			}
		}
	})
	return nil
}

// prefixStates returns the rendering of the Int kind after k commits, k = 0..n.
func prefixStates(log *hx.Log) []map[string]string {
	out := []map[string]string{{}}
	cur := map[string]string{}
	for _, e := range log.Entries {
		nxt := map[string]string{}
		for k, v := range cur {
			nxt[k] = v
		}
		if e.Type == tInt {
			if e.Destroy {
				delete(nxt, string(e.ID))
			} else {
				nxt[string(e.ID)] = hx.Snap(e.Res)
			}
		}
		out = append(out, nxt)
		cur = nxt
	}
	return out
}

func renderList(m map[string]string) string {
	ids := make([]string, 0, len(m))
	for k := range m {
		ids = append(ids, k)
	}
	sort.Strings(ids)
	s := make([]string, len(ids))
	for i, k := range ids {
		s[i] = m[k]
	}
	return strings.Join(s, "; ")
}

func body(c cfg, x *explore.X) {
	ctx, cancel := vctx.WithCancel(context.Background())
	log := &hx.Log{}
	var core state.CoreState = hx.NewNamespaced(log)
	if c.coalesce {
		core = coalescer{core}
	}
	st := state.WrapCore(core)
	for _, op := range c.pre {
		doW(ctx, st, op)
	}
	bootIdx := log.Len()
	rt, err := runtime.NewRuntime(st, zap.NewNop(), options.WithMetrics(false), options.WithCachedResource(hx.NS, tInt))
	if err != nil {
		panic(err)
	}
	var reads []read
	lastStart, nRec := -1, 0
	var lastList string
	type boundCtx struct {
		ctx    context.Context
		lo, hi int
	}
	var tctxs []boundCtx
	p := &px.Probe{NameV: "c0", InputsV: []controller.Input{{Namespace: hx.NS, Type: tInt, Kind: controller.InputWeak}}}
	p.OnEvent = func(ctx context.Context, r controller.Runtime, n int) error {
		start := log.Len()
		vrt.Yield()
		if c.teardown != "" && (len(tctxs) == 0 || c.tctxEvery) {
			tlo := log.Len()
			tctx, err := r.ContextWithTeardown(ctx, hx.IntPtr(c.teardown))
			if err != nil {
				return nil //nolint:nilerr // cancelled during shutdown
			}
			vrt.TouchKey("c15.reads", true)
			tctxs = append(tctxs, boundCtx{tctx, tlo, log.Len()})
		}
		lo := log.Len()
		l, err := r.List(ctx, hx.IntKind())
		if err != nil {
			return nil //nolint:nilerr // cancelled during shutdown
		}
		vrt.TouchKey("c15.reads", true)
		reads = append(reads, read{"c0", "list", lo, log.Len(), hx.SnapList(l)})
		lastList, lastStart = hx.SnapList(l), start
		nRec++
		if c.ctrlGet != "" {
			vrt.Yield()
			lo := log.Len()
			res, err := r.Get(ctx, hx.IntPtr(c.ctrlGet))
			s := ""
			if err == nil {
				s = hx.Snap(res)
			} else if !state.IsNotFoundError(err) {
				return nil //nolint:nilerr // cancelled during shutdown
			}
			vrt.TouchKey("c15.reads", true)
			reads = append(reads, read{"c0", "get " + c.ctrlGet, lo, log.Len(), s})
		}
		return nil
	}
	if err := rt.RegisterController(p); err != nil {
		panic(err)
	}
	if c.prologue {
		vrt.Branching(false)
	}
	runDone := false
	vrt.GoNamed("runtime.Run", func() { rt.Run(ctx); runDone = true }) //nolint:errcheck
	if c.prologue {
		vrt.WaitQuiescent()
		vrt.Branching(true)
	}
	cached := rt.CachedState()
	for ri := 0; ri < c.readers; ri++ {
		who := fmt.Sprintf("reader%d", ri)
		vrt.GoNamed(who, func() {
			for i := 0; i < c.nReads; i++ {
				vrt.Yield()
				lo := log.Len()
				l, err := cached.List(ctx, hx.IntKind())
				if err != nil {
					return
				}
				vrt.TouchKey("c15.reads", true)
				reads = append(reads, read{who, "list", lo, log.Len(), hx.SnapList(l)})
				vrt.Yield()
				lo = log.Len()
				res, err := cached.Get(ctx, hx.IntPtr("a"))
				s := ""
				if err == nil {
					s = hx.Snap(res)
				} else if !state.IsNotFoundError(err) {
					return
				}
				vrt.TouchKey("c15.reads", true)
				reads = append(reads, read{who, "get a", lo, log.Len(), s})
			}
		})
	}
	for _, op := range c.script {
		vrt.Yield()
		if c.viaCached {
			// reads from the state itself, writes through rt.CachedState() (a conflict-retrying helper on top
			// of a lagging cache would spin, and the scheduler is not fair to spinners)
			f := strings.Fields(string(op))
			switch f[0] {
			case "create":
				r := conformance.NewIntResource(hx.NS, f[1], 1)
				r.Metadata().Labels().Set("l", "1")
				if err := cached.Create(ctx, r); err != nil {
					panic(err)
				}
			case "update":
				cur, err := st.Get(ctx, hx.IntPtr(f[1]))
				if err != nil {
					panic(err)
				}
				cur.(*conformance.IntResource).SetValue(cur.(*conformance.IntResource).Value() + 1)
				if err := cached.Update(ctx, cur); err != nil {
					panic(err)
				}
			default:
				panic("viaCached: " + op)
			}
			continue
		}
		doW(ctx, st, op)
	}
	vrt.WaitQuiescent()
	vrt.TouchKey("c15.reads", true)
	// ---- oracles
	states := prefixStates(log)
	n := log.Len()
	// every read is a complete prefix state at or after bootstrap, not from the future, monotone per reader
	lastK := map[string]int{}
	for _, r := range reads {
		kmin := bootIdx
		if v, ok := lastK[r.who+"/"+r.what]; ok && v > kmin {
			kmin = v
		}
		found := -1
		for k := kmin; k <= r.hi && k <= n; k++ {
			want := renderList(states[k])
			if r.what != "list" {
				want = states[k][strings.TrimPrefix(r.what, "get ")]
			}
			if want == r.result {
				found = k
				break
			}
		}
		if found < 0 {
			// classify: partial bootstrap, went backwards, or invented
			back := false
			for k := bootIdx; k < kmin; k++ {
				want := renderList(states[k])
				if r.what != "list" {
					want = states[k][strings.TrimPrefix(r.what, "get ")]
				}
				if want == r.result {
					back = true
				}
			}
			switch {
			case back:
				x.Failf("cached read went backwards: %s %s returned %q, older than what the same reader saw before (prefix index >= %d)", r.who, r.what, r.result, kmin)
			default:
				x.Failf("cached read is not a complete state: %s %s (call window %d..%d) returned %q which is no state of the store at or after bootstrap index %d (partial bootstrap view or invented contents)", r.who, r.what, r.lo, r.hi, r.result, bootIdx)
			}
			continue
		}
		lastK[r.who+"/"+r.what] = found
	}
	// cached == uncached for every query at quiescence
	queries := map[string][]state.ListOption{
		"all":   nil,
		"l":     {state.WithLabelQuery(resource.LabelExists("l"))},
		"not l": {state.WithLabelQuery(resource.LabelExists("l", resource.NotMatches))},
		"id~a":  {state.WithIDQuery(resource.IDRegexpMatch(regexp.MustCompile("^a")))},
	}
	for qn, qo := range queries {
		cl, err1 := cached.List(ctx, hx.IntKind(), qo...)
		ul, err2 := st.List(ctx, hx.IntKind(), qo...)
		if err1 != nil || err2 != nil || hx.SnapList(cl) != hx.SnapList(ul) {
			x.Failf("at quiescence cached List[%s] = %q (%v), uncached = %q (%v)", qn, hx.SnapList(cl), err1, hx.SnapList(ul), err2)
		}
	}
	for _, id := range []string{"a", "b", "c"} {
		cr, err1 := cached.Get(ctx, hx.IntPtr(id))
		ur, err2 := st.Get(ctx, hx.IntPtr(id))
		if (err1 == nil) != (err2 == nil) || (err1 == nil && hx.Snap(cr) != hx.Snap(ur)) {
			x.Failf("at quiescence cached Get(%s) = %v/%v, uncached = %v/%v", id, hx.Snap(cr), err1, hx.Snap(ur), err2)
		}
	}
	// the woken controller's last observation is the final state and it started after the last commit
	last := -1
	for i := n - 1; i >= 0; i-- {
		if log.Entries[i].Type == tInt {
			last = i
			break
		}
	}
	if lastStart <= last {
		x.Failf("lost wake-up: the controller's last reconcile (of %d) started at log length %d, commit #%d is not covered", nRec, lastStart, last)
	} else if lastList != renderList(states[n]) {
		x.Failf("the cache lags behind the notification: the controller's last reconcile read %q, the final state is %q", lastList, renderList(states[n]))
	}
	// teardown-bound context
	for i, t := range tctxs {
		torn := func(k int) bool {
			s, ok := states[k][c.teardown]
			return !ok || strings.Contains(s, " TD")
		}
		must, may := false, false
		for k := t.lo; k <= n; k++ {
			if torn(k) {
				may = true
				if k >= t.hi {
					must = true
				}
			}
		}
		cancelled := t.ctx.Err() != nil
		if must && !cancelled {
			x.Failf("teardown-bound context #%d of %s (obtained at index %d..%d) is not cancelled although the resource is torn down / removed in the final state", i, c.teardown, t.lo, t.hi)
		}
		if cancelled && !may {
			x.Failf("teardown-bound context #%d of %s was cancelled although the resource was running throughout", i, c.teardown)
		}
	}
	x.Outcome("reconciles=%d reads=%d", nRec, len(reads))
	vrt.Branching(false)
	log.Frozen = true
	cancel()
	vrt.WaitQuiescent()
	if !runDone {
		x.Failf("Run did not return after cancel")
	}
}

// ---------------------------------------------------------------- white-box BFS on the cache

type cmodel struct {
	boot bool
	m    map[string]string // id -> "ver,td"
}

type cinst struct {
	c       *runtime.VerifCache
	m       cmodel
	ctxs    map[string][]context.Context // teardown contexts handed out per id
	parents map[string][]context.CancelFunc
	wantC   map[string][]bool // model: cancelled?
	// ctxHist keeps, per id, the order of context creations / parent cancellations / releases: two
	// holders created before or after a cancellation are different states for an implementation that
	// shares one waiter channel per id (merging them would hide exactly that kind of bug)
	ctxHist map[string]string
}

func mkRes(id string, ver int, td bool) resource.Resource {
	r := conformance.NewIntResource(hx.NS, id, ver)
	v, _ := resource.ParseVersion(fmt.Sprint(ver))
	r.Metadata().SetVersion(v)
	if td {
		r.Metadata().SetPhase(resource.PhaseTearingDown)
	}
	return r
}

func (in *cinst) Close() {}
func (in *cinst) Canon() string {
	ids := make([]string, 0)
	for k, v := range in.m.m {
		ids = append(ids, k+"="+v)
	}
	sort.Strings(ids)
	var w []string
	for id, cs := range in.wantC {
		w = append(w, fmt.Sprintf("%s:%v", id, cs))
	}
	sort.Strings(w)
	var hs []string
	for id, h := range in.ctxHist {
		hs = append(hs, id+":"+h)
	}
	sort.Strings(hs)
	return fmt.Sprintf("%v %v %v %v", in.m.boot, ids, w, hs)
}

func (in *cinst) Ops() []string {
	var out []string
	if !in.m.boot {
		// the runtime appends the bootstrap snapshot in id order
		max := ""
		for k := range in.m.m {
			if k > max {
				max = k
			}
		}
		for _, id := range []string{"a", "b", "c"} {
			if id > max {
				out = append(out, "append "+id)
			}
		}
		return append(out, "boot")
	}
	for _, id := range []string{"a", "b", "c"} {
		out = append(out, "put "+id, "puttd "+id, "remove "+id)
		if len(in.ctxs[id]) < 2 {
			out = append(out, "ctx "+id)
		}
		if len(in.ctxs[id]) > 0 && !in.wantC[id][0] {
			out = append(out, "cancelparent "+id) // the first holder's own context ends
		}
	}
	return out
}

func (in *cinst) Apply(op string) string {
	f := strings.Fields(op)
	ctx := context.Background()
	ver := 1
	if len(f) > 1 {
		if cur, ok := in.m.m[f[1]]; ok {
			fmt.Sscanf(cur, "%d", &ver)
			ver++
		}
	}
	cancelAll := func(id string) {
		for i := range in.wantC[id] {
			in.wantC[id][i] = true
		}
		if len(in.wantC[id]) > 0 {
			in.ctxHist[id] += "r"
		}
	}
	switch f[0] {
	case "append":
		in.c.CacheAppend(mkRes(f[1], 1, false))
		in.m.m[f[1]] = "1,false"
	case "boot":
		in.c.MarkBootstrapped(hx.NS, tInt)
		in.m.boot = true
	case "put":
		in.c.CachePut(mkRes(f[1], ver, false))
		in.m.m[f[1]] = fmt.Sprintf("%d,false", ver)
	case "puttd":
		in.c.CachePut(mkRes(f[1], ver, true))
		in.m.m[f[1]] = fmt.Sprintf("%d,true", ver)
		cancelAll(f[1])
	case "remove":
		in.c.CacheRemove(mkRes(f[1], 1, false))
		delete(in.m.m, f[1])
		cancelAll(f[1])
	case "cancelparent":
		in.ctxHist[f[1]] += "x"
		in.parents[f[1]][0]()
		in.wantC[f[1]][0] = true
	case "ctx":
		pctx, pcancel := context.WithCancel(ctx)
		in.ctxHist[f[1]] += "c"
		in.parents[f[1]] = append(in.parents[f[1]], pcancel)
		c, err := in.c.ContextWithTeardown(pctx, hx.IntPtr(f[1]))
		if err != nil {
			return "ContextWithTeardown: " + err.Error()
		}
		cur, ok := in.m.m[f[1]]
		in.ctxs[f[1]] = append(in.ctxs[f[1]], c)
		in.wantC[f[1]] = append(in.wantC[f[1]], !ok || strings.HasSuffix(cur, ",true"))
	}
	if !in.m.boot {
		// reads block until bootstrapped: with a cancelled context they must return the context error
		cctx, cancel := context.WithCancel(ctx)
		cancel()
		if _, err := in.c.Get(cctx, hx.IntPtr("a")); err == nil {
			return "Get returned before the cache was bootstrapped"
		}
		if _, err := in.c.List(cctx, hx.IntKind()); err == nil {
			return "List returned before the cache was bootstrapped"
		}
		return ""
	}
	// observe everything
	var want []string
	for _, id := range []string{"a", "b", "c"} {
		r, err := in.c.Get(ctx, hx.IntPtr(id))
		cur, ok := in.m.m[id]
		if ok != (err == nil) {
			return fmt.Sprintf("Get(%s): err=%v, model present=%v", id, err, ok)
		}
		if ok {
			got := fmt.Sprintf("%d,%v", r.Metadata().Version().Value(), r.Metadata().Phase() == resource.PhaseTearingDown)
			if got != cur {
				return fmt.Sprintf("Get(%s) = %s, model %s", id, got, cur)
			}
			want = append(want, id)
		}
	}
	l, err := in.c.List(ctx, hx.IntKind())
	if err != nil {
		return "List: " + err.Error()
	}
	var got []string
	for _, r := range l.Items {
		got = append(got, r.Metadata().ID())
	}
	if strings.Join(got, ",") != strings.Join(want, ",") {
		return fmt.Sprintf("List = %v, model %v (must be sorted by id)", got, want)
	}
	return ""
}

// settle checks teardown contexts at quiescence (needs the scheduler: cancellation runs in goroutines).
func cacheBFS(x *explore.X, depth int) {
	// the teardown-context goroutines need the scheduler; run every transition inside a controlled execution
	type hist = []string
	seen := map[string]bool{}
	frontier := []hist{{}}
	states, trans := 0, 0
	for d := 0; d <= depth && len(frontier) > 0; d++ {
		var next []hist
		for _, h := range frontier {
			var canon, viol string
			var ops []string
			res := vrt.Run(nil, vrt.Options{}, func() {
				in := &cinst{c: runtime.VerifNewCache([]options.CachedResource{{Namespace: hx.NS, Type: tInt}}), m: cmodel{m: map[string]string{}}, ctxs: map[string][]context.Context{}, parents: map[string][]context.CancelFunc{}, wantC: map[string][]bool{}, ctxHist: map[string]string{}}
				for _, op := range h {
					if msg := in.Apply(op); msg != "" {
						viol = msg
						return
					}
					vrt.WaitQuiescent()
				}
				for id, cs := range in.ctxs {
					for i, c := range cs {
						if (c.Err() != nil) != in.wantC[id][i] {
							viol = fmt.Sprintf("teardown-bound context #%d of %s: cancelled=%v, model says %v", i, id, c.Err() != nil, in.wantC[id][i])
						}
					}
				}
				canon, ops = in.Canon(), in.Ops()
				// release waiters so that no goroutine is left behind
				for _, ps := range in.parents {
					for _, p := range ps {
						p()
					}
				}
				for _, id := range []string{"a", "b", "c"} {
					in.c.CacheRemove(mkRes(id, 1, false))
				}
				vrt.WaitQuiescent()
			})
			trans++
			if len(res.Panics) > 0 {
				viol = "panic: " + res.Panics[0]
			}
			if len(res.Live) > 0 && viol == "" {
				viol = fmt.Sprintf("goroutines left behind: %v", res.Live)
			}
			if viol != "" {
				x.FailKey("cache-bfs", "after %v: %s", h, viol)
				goto done
			}
			if seen[canon] {
				continue
			}
			seen[canon] = true
			states++
			if states <= 2 {
				x.Sample(map[string]any{"history": h, "state": canon})
			}
			for _, op := range ops {
				next = append(next, append(append(hist{}, h...), op))
			}
		}
		frontier = next
	}
done:
	x.Add("states", states)
	x.Add("transitions", trans)
	x.Add("evaluations", trans)
	x.Add("distinct_nontrivial", states)
	x.Add("traces_validated_against_impl", trans)
	x.Outcome("states=%d transitions=%d", states, trans)
	_ = seqx.Result{}
}

func build(tier string) []explore.Scenario {
	// with happens-before pruning one more preemption than the plain search could afford
	b0, b1 := []int{0, 1}, []int{0, 1, 2}
	if tier == "thorough" {
		b0, b1 = []int{0, 1, 2}, []int{0, 1, 2, 3}
	}
	b2r := []int{0} // two free readers: bound 1 is 680 000 schedules even with pruning - thorough tier only
	if tier == "thorough" {
		b2r = b0
	}
	cs := []cfg{
		{name: "bootstrap-race/2preexisting/1reader", pre: []wop{"create a", "create b"}, script: []wop{"update a"}, prologue: false, readers: 1, nReads: 1, bounds: b0},
		{name: "bootstrap-race/1preexisting/1reader-reads-twice", pre: []wop{"create a"}, script: []wop{"update a"}, prologue: false, readers: 1, nReads: 2, bounds: []int{0}},
		{name: "bootstrap-coalesced/3preexisting", pre: []wop{"create a", "create b", "create c"}, script: []wop{"update b", "destroy c", "create d"}, prologue: false, readers: 0, bounds: []int{0}, coalesce: true},
		{name: "steady-coalesced/update-create/1reader", pre: []wop{"create a", "create b"}, script: []wop{"update a", "create c"}, prologue: true, readers: 1, nReads: 1, bounds: []int{0}, coalesce: true},
		{name: "steady/writes-through-cached-state/1reader", pre: []wop{"create a"}, script: []wop{"update a", "update a", "update a"}, prologue: true, readers: 1, nReads: 1, bounds: []int{0}, viaCached: true},
		{name: "steady/create-update/controller-gets-the-new-resource", pre: []wop{"create a"}, script: []wop{"update a", "create c", "update c"}, prologue: true, readers: 0, bounds: b0, ctrlGet: "c"},
		{name: "steady/update-create/1reader", pre: []wop{"create a", "create b"}, script: []wop{"update a", "create c"}, prologue: true, readers: 1, nReads: 2, bounds: b0},
		{name: "steady/update-destroy-unlabel/1reader", pre: []wop{"create a", "create b"}, script: []wop{"unlabel a", "destroy b"}, prologue: true, readers: 1, nReads: 2, bounds: b0},
		{name: "steady/2readers", pre: []wop{"create a"}, script: []wop{"update a", "update a"}, prologue: true, readers: 2, nReads: 1, bounds: b2r},
		{name: "teardown-context/teardown", pre: []wop{"create a", "create b"}, script: []wop{"update a", "teardown a"}, prologue: true, readers: 0, bounds: b1, teardown: "a"},
		{name: "teardown-context/teardown/obtained-in-every-reconcile", pre: []wop{"create a", "create b"}, script: []wop{"update a", "teardown a"}, prologue: true, readers: 0, bounds: b1, teardown: "a", tctxEvery: true},
		{name: "teardown-context/destroy/obtained-in-every-reconcile", pre: []wop{"create a", "create b"}, script: []wop{"update b", "destroy a"}, prologue: true, readers: 0, bounds: b1, teardown: "a", tctxEvery: true},
		{name: "teardown-context/destroy", pre: []wop{"create a", "create b"}, script: []wop{"destroy a"}, prologue: true, readers: 0, bounds: b1, teardown: "a"},
		{name: "teardown-context/untouched", pre: []wop{"create a", "create b"}, script: []wop{"update b", "destroy b"}, prologue: true, readers: 0, bounds: b0, teardown: "a"},
		// versions are numbers, not strings (seed c15i: a "newer than" guard comparing their text forms is right up to 9)
		{name: "steady/version-crosses-a-decimal-digit/1reader", pre: []wop{"create a", "update a", "update a", "update a", "update a", "update a", "update a", "update a", "update a"}, script: []wop{"update a", "update a"}, prologue: true, readers: 1, nReads: 1, bounds: []int{0}},
		{name: "teardown-context/teardown-past-version-9", pre: []wop{"create a", "update a", "update a", "update a", "update a", "update a", "update a", "update a", "update a", "create b"}, script: []wop{"update a", "teardown a"}, prologue: true, readers: 0, bounds: []int{0}, teardown: "a"},
		{name: "teardown-context/absent", pre: []wop{"create b"}, script: []wop{"update b"}, prologue: true, readers: 0, bounds: b0, teardown: "a"},
	}
	var out []explore.Scenario
	for _, c := range cs {
		c := c
		out = append(out, explore.Scenario{
			Name:   "runtime/" + c.name,
			Desc:   fmt.Sprintf("real runtime with the Int kind cached, pre-existing %v, writer %v, a probe controller reading through the cache and %d free CachedState() reader(s); every cached read must be a complete store state at or after the bootstrap index, never older than the reader's previous read; at quiescence cached == uncached (incl. label/ID filtered lists) and the controller's last reconcile read the final state", c.pre, c.script, c.readers),
			Bounds: c.bounds,
			HB:     true,
			Body:   func(x *explore.X) { body(c, x) },
		})
	}
	depth := 6
	if tier == "thorough" {
		depth = 8
	}
	out = append(out, explore.Scenario{
		Name:       fmt.Sprintf("cache-bfs/depth%d", depth),
		Desc:       "white-box BFS over append (in id order) / markBootstrapped / put / put tearing-down / remove / contextWithTeardown on the real ResourceCache vs a sorted-map model: Get/List never answer before bootstrap, contents and order equal the model after every step, teardown-bound contexts are cancelled exactly when the resource is put tearing-down or removed (or was absent/tearing-down when obtained)",
		Sequential: true,
		Body:       func(x *explore.X) { cacheBFS(x, depth) },
	})
	return out
}

func main() {
	explore.Main(explore.Config{
		Property:     "C15",
		RequireShims: true,
		Technique:    "stateless model checking of the real runtime with a cached kind (probe controller + free cached readers) under a controlled scheduler, reads matched against prefix states of the commit log; explicit-state BFS of the cache handler vs a sorted-map model",
		Rule:         "runtime: one execution per schedule (bootstrap explored in the race scenario); cache BFS: every operation from every reachable model state; non-trivial = schedules differing from the default / distinct model states",
		Assume:       []string{"a read may return any complete state between the bootstrap index and the commit-log length at its return", "quiescence is exact"},
	}, build)
}
