// Harness C08: controllers are confined to declared inputs/outputs and resources they own.
package main

import (
	"context"
	"fmt"
	"sort"
	"strings"

	"github.com/siderolabs/gen/optional"
	"go.uber.org/zap"

	"github.com/cosi-project/runtime/pkg/controller"
	"github.com/cosi-project/runtime/pkg/controller/conformance"
	"github.com/cosi-project/runtime/pkg/controller/runtime"
	"github.com/cosi-project/runtime/pkg/controller/runtime/options"
	"github.com/cosi-project/runtime/pkg/resource"
	"github.com/cosi-project/runtime/pkg/state"
	"github.com/cosi-project/runtime/pkg/state/impl/inmem"
	"github.com/cosi-project/runtime/pkg/state/impl/namespaced"
	"verif.local/explore"
	"verif.local/harness/hx"
	"verif.local/harness/px"
	"verif.local/vrt"
)

const (
	self  = "probe"
	other = "somebody-else"
	tIn   = conformance.IntResourceType
	tOut  = conformance.StrResourceType
	tUn   = conformance.SentenceResourceType
)

type declT struct {
	q       bool
	kind    int
	byID    bool
	outKind int // -1 none
	cached  bool
	upd     bool // the declaration is reached through UpdateInputs from a different initial input
	// shrunk: the controller starts with a wider declaration (the undeclared type, the other namespace and the
	// other id are inputs too), reads every target once while that is in force, then narrows its inputs to the
	// declaration under test with UpdateInputs: nothing remembered from before may widen what is allowed now
	shrunk bool
	// prelude: before the operation under test the controller makes the two legitimate calls that name another
	// owner (Teardown and Destroy with WithOwner on a sacrificial output of that owner, as the generic cleanup
	// and destroy controllers do): what an earlier call named must not widen what a later plain call may touch
	prelude bool
}

func (d declT) String() string {
	kinds := []string{"weak", "strong", "destroy-ready", "q-primary", "q-mapped", "q-mapped-destroy-ready"}
	id := "kind"
	if d.byID {
		id = "id=a"
	}
	out := []string{"none", "exclusive", "shared"}[d.outKind+1]
	c := ""
	if d.cached {
		c = "+cached"
	}
	if d.upd {
		c += "+via-UpdateInputs"
	}
	if d.shrunk {
		c += "+shrunk-after-reads"
	}
	if d.prelude {
		c += "+after-owner-naming-calls"
	}
	return fmt.Sprintf("%s/%s/out-%s%s", kinds[d.kind], id, out, c)
}

type target struct {
	name string
	ns   string
	typ  resource.Type
	id   string
}

var targets = []target{
	{"input-same-id", hx.NS, tIn, "a"},
	{"input-other-id", hx.NS, tIn, "b"},
	{"output", hx.NS, tOut, "a"},
	{"undeclared-type", hx.NS, tUn, "a"},
	{"input-type-other-ns", "ns2", tIn, "a"},
}

var sacrificial = target{"sacrificial-output", hx.NS, tOut, "y"}

func mk(t target) resource.Resource {
	switch t.typ {
	case tIn:
		return conformance.NewIntResource(t.ns, t.id, 1)
	case tOut:
		return conformance.NewStrResource(t.ns, t.id, "v")
	}
	return conformance.NewSentenceResource(t.ns, t.id, "v")
}

var owners = []string{self, other, "", "<absent>"}

var opNames = []string{"Get", "List", "ContextWithTeardown", "GetUncached", "ListUncached", "Create", "CreateNoOwner", "Update", "Modify", "ModifyWithResult", "ModifyNoOwner",
	"Teardown", "TeardownWithOwnerOther", "Destroy", "DestroyWithOwnerOther", "DestroyWithOwnerNobody", "AddFinalizer", "RemoveFinalizer", "TrackCleanup"}

type rw interface {
	controller.ReaderWriter
	controller.UncachedReader
}

func ptrOf(t target) resource.Pointer {
	return resource.NewMetadata(t.ns, t.typ, t.id, resource.VersionUndefined)
}

func setVal(r resource.Resource) error {
	r.Metadata().Labels().Set("touched", "yes")
	return nil
}

// doOp performs op through the controller's runtime API.
func doOp(ctx context.Context, r rw, raw state.State, op string, t target) error {
	p := ptrOf(t)
	kind := resource.NewMetadata(t.ns, t.typ, "", resource.VersionUndefined)
	switch op {
	case "Get":
		_, err := r.Get(ctx, p)
		return err
	case "GetUncached":
		_, err := r.GetUncached(ctx, p)
		return err
	case "List":
		_, err := r.List(ctx, kind)
		return err
	case "ListUncached":
		_, err := r.ListUncached(ctx, kind)
		return err
	case "ContextWithTeardown":
		_, err := r.ContextWithTeardown(ctx, p)
		return err
	case "Create":
		return r.Create(ctx, mk(t))
	case "CreateNoOwner":
		return r.Create(ctx, mk(t), controller.WithCreateNoOwner())
	case "Update":
		cur, err := raw.Get(ctx, p)
		if err != nil {
			cur = mk(t)
		}
		setVal(cur) //nolint:errcheck
		return r.Update(ctx, cur)
	case "Modify":
		return r.Modify(ctx, mk(t), setVal)
	case "ModifyWithResult":
		_, err := r.ModifyWithResult(ctx, mk(t), setVal)
		return err
	case "ModifyNoOwner":
		return r.Modify(ctx, mk(t), setVal, controller.WithModifyNoOwner())
	case "Teardown":
		_, err := r.Teardown(ctx, p)
		return err
	case "TeardownWithOwnerOther":
		_, err := r.Teardown(ctx, p, controller.WithOwner(other))
		return err
	case "Destroy":
		return r.Destroy(ctx, p)
	case "DestroyWithOwnerOther":
		return r.Destroy(ctx, p, controller.WithOwner(other))
	case "DestroyWithOwnerNobody":
		return r.Destroy(ctx, p, controller.WithOwner(""))
	case "AddFinalizer":
		return r.AddFinalizer(ctx, p, "fin")
	case "RemoveFinalizer":
		return r.RemoveFinalizer(ctx, p, "fin")
	case "TrackCleanup":
		// a reconcile pass with output tracking that touches nothing, then the sweep over the target's kind
		ot, ok := r.(controller.OutputTracker)
		if !ok {
			return nil // queue controllers have no output tracking
		}
		ot.StartTrackingOutputs()
		return ot.CleanupOutputs(ctx, kind)
	}
	panic("unknown op " + op)
}

// policy: the reference decision transcribed from the statement.
// returns (allowedByDeclaration, expectError, expectedSnapshotOfTarget)
func policy(d declT, op string, t target, owner string) (declared bool, wantErr bool, want string) {
	present := owner != "<absent>"
	cur := ""
	base := mk(t)
	if present {
		base.Metadata().SetOwner(owner) //nolint:errcheck
		base.Metadata().SetVersion(base.Metadata().Version().Next())
		cur = hx.Snap(base)
	}
	isOutput := d.outKind >= 0 && t.typ == tOut
	inputMatch := t.ns == hx.NS && t.typ == tIn && (!d.byID || t.id == "a")
	inputMatchList := t.ns == hx.NS && t.typ == tIn && !d.byID
	finKind := d.kind == controller.InputStrong || d.kind == controller.InputQPrimary || d.kind == controller.InputQMapped
	snapWith := func(f func(r resource.Resource)) string {
		r := mk(t)
		r.Metadata().SetOwner(owner) //nolint:errcheck
		r.Metadata().SetVersion(r.Metadata().Version().Next())
		f(r)
		return hx.Snap(r)
	}
	bump := func(r resource.Resource) { r.Metadata().SetVersion(r.Metadata().Version().Next()) }
	switch op {
	case "Get", "GetUncached", "ContextWithTeardown":
		declared = isOutput || inputMatch
		return declared, !declared || (!present && op != "ContextWithTeardown"), cur
	case "List", "ListUncached":
		declared = isOutput || inputMatchList
		return declared, !declared, cur
	case "Create", "CreateNoOwner":
		declared = isOutput
		if !declared || present {
			return declared, true, cur
		}
		o := self
		if op == "CreateNoOwner" {
			o = ""
		}
		r := mk(t)
		r.Metadata().SetOwner(o) //nolint:errcheck
		r.Metadata().SetVersion(r.Metadata().Version().Next())
		return true, false, hx.Snap(r)
	case "Update", "Modify", "ModifyWithResult", "ModifyNoOwner":
		declared = isOutput
		if !declared {
			return false, true, cur
		}
		need := self
		if op == "ModifyNoOwner" {
			need = ""
		}
		if !present {
			if op == "Update" {
				return true, true, cur
			}
			r := mk(t)
			r.Metadata().SetOwner(need) //nolint:errcheck
			r.Metadata().SetVersion(r.Metadata().Version().Next())
			setVal(r) //nolint:errcheck
			return true, false, hx.Snap(r)
		}
		if owner != need {
			return true, true, cur
		}
		return true, false, snapWith(func(r resource.Resource) { setVal(r); bump(r) }) //nolint:errcheck
	case "Teardown", "TeardownWithOwnerOther":
		declared = isOutput
		need := self
		if op == "TeardownWithOwnerOther" {
			need = other
		}
		if !declared || !present || owner != need {
			return declared, true, cur
		}
		return true, false, snapWith(func(r resource.Resource) { r.Metadata().SetPhase(resource.PhaseTearingDown); bump(r) })
	case "Destroy", "DestroyWithOwnerOther", "DestroyWithOwnerNobody":
		declared = isOutput
		need := map[string]string{"Destroy": self, "DestroyWithOwnerOther": other, "DestroyWithOwnerNobody": ""}[op]
		if !declared || !present || owner != need {
			return declared, true, cur
		}
		return true, false, ""
	case "AddFinalizer":
		declared = finKind && inputMatch
		if !declared || !present {
			return declared, true, cur
		}
		return true, false, snapWith(func(r resource.Resource) { r.Metadata().Finalizers().Add("fin"); bump(r) })
	case "RemoveFinalizer":
		declared = finKind && inputMatch
		if !declared {
			return false, true, cur
		}
		return true, false, cur // nothing to remove; absent is not an error
	case "TrackCleanup":
		if d.q {
			return true, false, cur
		}
		if !(isOutput || inputMatchList) {
			return false, true, cur // the sweep may not even list the kind
		}
		if present && owner == self {
			if isOutput {
				return true, false, "" // the controller's own, untouched in this pass: swept
			}
			return true, true, cur // its own resource of an input-only kind: the sweep's Destroy is refused
		}
		return true, false, cur // foreign or unowned resources are never the sweep's business
	}
	panic(op)
}

func snapshotAll(ctx context.Context, st state.State) string {
	var out []string
	for _, ns := range []string{hx.NS, "ns2"} {
		for _, typ := range []resource.Type{tIn, tOut, tUn} {
			l, err := st.List(ctx, resource.NewMetadata(ns, typ, "", resource.VersionUndefined))
			if err != nil {
				panic(err)
			}
			for _, r := range l.Items {
				if r.Metadata().ID() == sacrificial.id {
					continue // the prelude's own resource: not part of the comparison
				}
				out = append(out, ns+":"+hx.Snap(r))
			}
		}
	}
	sort.Strings(out)
	return strings.Join(out, "; ")
}

func runCase(x *explore.X, d declT, op string, t target, owner string) (steps int) {
	label := fmt.Sprintf("decl=%v op=%s target=%s owner=%s", d, op, t.name, owner)
	res := vrt.Run(nil, vrt.Options{}, func() {
		ctx, cancel := context.WithCancel(context.Background())
		st := state.WrapCore(namespaced.NewState(inmem.Build))
		// a bystander resource of every kind that must never change
		for _, b := range []target{{"", hx.NS, tIn, "z"}, {"", hx.NS, tOut, "z"}, {"", hx.NS, tUn, "z"}, {"", "ns2", tIn, "z"}} {
			if err := st.Create(ctx, mk(b), state.WithCreateOwner(other)); err != nil {
				panic(err)
			}
		}
		if owner != "<absent>" {
			if err := st.Create(ctx, mk(t), state.WithCreateOwner(owner)); err != nil {
				panic(err)
			}
		}
		if d.prelude {
			if err := st.Create(ctx, mk(sacrificial), state.WithCreateOwner(other)); err != nil {
				panic(err)
			}
		}
		before := snapshotAll(ctx, st)
		opts := []options.Option{options.WithMetrics(false)}
		if d.cached {
			opts = append(opts, options.WithCachedResource(hx.NS, tIn))
		}
		rt, err := runtime.NewRuntime(st, zap.NewNop(), opts...)
		if err != nil {
			panic(err)
		}
		in := controller.Input{Namespace: hx.NS, Type: tIn, Kind: d.kind}
		if d.byID {
			in.ID = optional.Some(resource.ID("a"))
		}
		var outs []controller.Output
		if d.outKind >= 0 {
			outs = []controller.Output{{Type: tOut, Kind: d.outKind}}
		}
		done := false
		var opErr error
		perform := func(ctx context.Context, r rw) {
			if done {
				return
			}
			done = true
			if d.prelude {
				r.Teardown(ctx, ptrOf(sacrificial), controller.WithOwner(other)) //nolint:errcheck
				r.Destroy(ctx, ptrOf(sacrificial), controller.WithOwner(other))  //nolint:errcheck
			}
			opErr = doOp(ctx, r, st, op, t)
		}
		if d.q {
			qp := &px.QProbe{NameV: self}
			qp.SettingsV = controller.QSettings{Inputs: []controller.Input{in}, Outputs: outs,
				RunHook: func(ctx context.Context, _ *zap.Logger, r controller.QRuntime) error {
					perform(ctx, r)
					vrt.Recv1(ctx.Done())
					return nil
				}}
			if err := rt.RegisterQController(qp); err != nil {
				panic(err)
			}
		} else {
			p := &px.Probe{NameV: self, InputsV: []controller.Input{in}, OutputsV: outs}
			if d.upd {
				// start from the same key with the "opposite" kind (strong <-> weak): only the kind changes
				init := in
				init.Kind = controller.InputStrong
				if d.kind == controller.InputStrong {
					init.Kind = controller.InputWeak
				}
				p.InputsV = []controller.Input{init}
			}
			if d.shrunk {
				p.InputsV = []controller.Input{in,
					{Namespace: hx.NS, Type: tUn, Kind: controller.InputStrong},
					{Namespace: "ns2", Type: tIn, Kind: controller.InputStrong},
				}
				if d.byID {
					p.InputsV = append(p.InputsV, controller.Input{Namespace: hx.NS, Type: tIn, ID: optional.Some(resource.ID("b")), Kind: controller.InputStrong})
				}
			}
			p.OnEvent = func(ctx context.Context, r controller.Runtime, _ int) error {
				if d.shrunk && !done {
					for _, wt := range targets {
						for _, wop := range []string{"Get", "GetUncached", "List", "ListUncached", "ContextWithTeardown"} {
							doOp(ctx, r, st, wop, wt) //nolint:errcheck
						}
					}
					if err := r.UpdateInputs([]controller.Input{in}); err != nil {
						panic(err)
					}
				}
				if d.upd && !done {
					if err := r.UpdateInputs([]controller.Input{in}); err != nil {
						panic(err)
					}
				}
				perform(ctx, r)
				return nil
			}
			if err := rt.RegisterController(p); err != nil {
				panic(err)
			}
		}
		vrt.Go(func() { rt.Run(ctx) }) //nolint:errcheck
		vrt.WaitQuiescent()
		if !done {
			x.FailKey("harness", "%s: the probe never ran", label)
		}
		after := snapshotAll(ctx, st)
		declared, wantErr, wantTarget := policy(d, op, t, owner)
		// expected full snapshot = before with the target replaced
		cur := ""
		if owner != "<absent>" {
			r := mk(t)
			r.Metadata().SetOwner(owner) //nolint:errcheck
			r.Metadata().SetVersion(r.Metadata().Version().Next())
			cur = t.ns + ":" + hx.Snap(r)
		}
		wantAll := before
		if wantTarget != "" {
			wantTarget = t.ns + ":" + wantTarget
		}
		if wantTarget != cur {
			var items []string
			for _, it := range strings.Split(before, "; ") {
				if it != cur && it != "" {
					items = append(items, it)
				}
			}
			if wantTarget != "" {
				items = append(items, wantTarget)
			}
			sort.Strings(items)
			wantAll = strings.Join(items, "; ")
		}
		key := "confinement/" + op
		switch {
		case !declared && opErr == nil:
			x.FailKey(key, "%s: operation outside the declared inputs/outputs (or finalizer change on a non-strong input) was allowed", label)
		case !declared && after != before:
			x.FailKey(key, "%s: rejected operation changed the state: %q -> %q", label, before, after)
		case wantErr && opErr == nil:
			x.FailKey(key, "%s: must fail (ownership / existence) but succeeded; state %q", label, after)
		case !wantErr && opErr != nil:
			x.FailKey(key, "%s: must succeed but failed: %v", label, opErr)
		case after != wantAll:
			x.FailKey(key, "%s: resulting state %q, expected %q (err=%v)", label, after, wantAll, opErr)
		}
		cancel()
		vrt.WaitQuiescent()
	})
	for _, p := range res.Panics {
		x.FailKey("confinement/panic", "%s: panic: %s", label, p)
	}
	return res.Steps
}

func scenario(d declT) explore.Scenario {
	return explore.Scenario{
		Name:       "decl/" + d.String(),
		Desc:       fmt.Sprintf("probe controller with declaration %v performs each of %d operations on each of %d targets x %d owners through the runtime API (real runtime, deterministic schedule, run to quiescence); result and full store snapshot compared with the reference policy", d, len(opNames), len(targets), len(owners)),
		Sequential: true,
		Body: func(x *explore.X) {
			n, steps := 0, 0
			for _, op := range opNames {
				for _, t := range targets {
					for _, o := range owners {
						steps += runCase(x, d, op, t, o)
						n++
					}
				}
			}
			x.Add("states", n)
			x.Add("transitions", steps)
			x.Add("evaluations", n)
			x.Add("distinct_nontrivial", n)
			x.Add("traces_validated_against_impl", n)
			x.Sample(map[string]any{"declaration": d.String(), "cases": n, "example": "op=Destroy target=output owner=somebody-else -> denied unless WithOwner names that owner"})
			x.Outcome("cases=%d", n)
		},
	}
}

func build(tier string) []explore.Scenario {
	var out []explore.Scenario
	for kind := 0; kind < 6; kind++ {
		for _, byID := range []bool{false, true} {
			for outKind := -1; outKind <= 1; outKind++ {
				for _, cached := range []bool{false, true} {
					if cached && tier != "thorough" && outKind != 0 {
						continue
					}
					out = append(out, scenario(declT{q: kind >= 3, kind: kind, byID: byID, outKind: outKind, cached: cached}))
					if kind < 3 && !cached {
						out = append(out, scenario(declT{kind: kind, byID: byID, outKind: outKind, upd: true}))
					}
					if outKind >= 0 && !cached {
						out = append(out, scenario(declT{q: kind >= 3, kind: kind, byID: byID, outKind: outKind, prelude: true}))
					}
					if kind < 3 && (outKind == 0 || tier == "thorough") {
						out = append(out, scenario(declT{kind: kind, byID: byID, outKind: outKind, cached: cached, shrunk: true}))
					}
				}
			}
		}
	}
	return out
}

func main() {
	explore.Main(explore.Config{
		Property:     "C08",
		RequireShims: true,
		Technique:    "exhaustive enumeration of (declaration x operation x target x owner) on the real runtime API, each run to exact quiescence on the controlled scheduler, against a reference policy function",
		Rule:         "full product of declarations (6 input kinds x by-kind/by-ID x 3 output modes x cached/uncached) x 18 operations x 5 target relations x 4 current owners; every case is distinct",
		Assume:       []string{"deterministic default schedule (the property is about access decisions, not interleavings)", "one input and at most one output per declaration"},
		Extra:        map[string]any{"explanation": "states = cases (declaration, operation, target, owner) executed; transitions = scheduler steps of the runtime runs"},
	}, build)
}
