// Package px holds probe controllers (both flavours) written against the vrt API, so they run under
// the cooperative scheduler as well as in passthrough mode.
package px

import (
	"context"
	"sync"

	"go.uber.org/zap"

	"github.com/cosi-project/runtime/pkg/controller"
	"github.com/cosi-project/runtime/pkg/resource"
	"verif.local/vrt"
)

// Probe is a controller.Controller whose behaviour per reconcile is a callback.
type Probe struct {
	NameV      string
	InputsV    []controller.Input
	OutputsV   []controller.Output
	OnRun      func(ctx context.Context, r controller.Runtime) error // optional, once per (re)start, before the loop
	OnEvent    func(ctx context.Context, r controller.Runtime, n int) error
	Starts     int
	Reconciles int
	Runtime    controller.Runtime
}

// Name implements controller.Controller.
func (p *Probe) Name() string { return p.NameV }

// Inputs implements controller.Controller.
func (p *Probe) Inputs() []controller.Input { return append([]controller.Input(nil), p.InputsV...) }

// Outputs implements controller.Controller.
func (p *Probe) Outputs() []controller.Output { return append([]controller.Output(nil), p.OutputsV...) }

// Run implements controller.Controller.
func (p *Probe) Run(ctx context.Context, r controller.Runtime, _ *zap.Logger) error {
	vrt.TouchKey("px.records", true) // the records below are read by the scenario's main goroutine
	p.Starts++
	p.Runtime = r
	if p.OnRun != nil {
		if err := p.OnRun(ctx, r); err != nil {
			return err
		}
	}
	for {
		if vrt.Select(false, vrt.RecvCase(ctx.Done()), vrt.RecvCase(r.EventCh())) == 0 {
			return nil
		}
		vrt.TouchKey("px.records", true)
		p.Reconciles++
		if p.OnEvent != nil {
			if err := p.OnEvent(ctx, r, p.Reconciles); err != nil {
				return err
			}
		}
	}
}

// recMu guards the probes' records when queue workers run on real threads (race-detector pass); never held
// across a scheduling point.
var recMu sync.Mutex

// QProbe is a controller.QController with callbacks.
type QProbe struct {
	NameV       string
	SettingsV   controller.QSettings
	OnReconcile func(ctx context.Context, r controller.QRuntime, ptr resource.Pointer) error
	OnMap       func(ctx context.Context, r controller.QRuntime, md controller.ReducedResourceMetadata) ([]resource.Pointer, error)
	Reconciles  []string
	Maps        []string
}

// Name implements controller.QController.
func (p *QProbe) Name() string { return p.NameV }

// Settings implements controller.QController.
func (p *QProbe) Settings() controller.QSettings { return p.SettingsV }

// Reconcile implements controller.QController.
func (p *QProbe) Reconcile(ctx context.Context, _ *zap.Logger, r controller.QRuntime, ptr resource.Pointer) error {
	vrt.TouchKey("px.records", true)
	recMu.Lock()
	p.Reconciles = append(p.Reconciles, string(ptr.Type())+"/"+string(ptr.ID()))
	recMu.Unlock()
	if p.OnReconcile != nil {
		return p.OnReconcile(ctx, r, ptr)
	}
	return nil
}

// MapInput implements controller.QController.
func (p *QProbe) MapInput(ctx context.Context, _ *zap.Logger, r controller.QRuntime, md controller.ReducedResourceMetadata) ([]resource.Pointer, error) {
	vrt.TouchKey("px.records", true)
	recMu.Lock()
	p.Maps = append(p.Maps, string(md.Type())+"/"+string(md.ID()))
	recMu.Unlock()
	if p.OnMap != nil {
		return p.OnMap(ctx, r, md)
	}
	return nil, nil
}
