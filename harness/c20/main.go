// Harness C20: key storage — master key recoverable via live slots only; tampering detected.
package main

import (
	"bytes"
	"fmt"
	"sort"
	"strings"
	"sync"

	"github.com/ProtonMail/gopenpgp/v2/crypto"
	"github.com/siderolabs/gen/xerrors"

	"github.com/cosi-project/runtime/api/key_storage"
	"github.com/cosi-project/runtime/pkg/keystorage"
	"verif.local/explore"
	"verif.local/seqx"
	"verif.local/vrt"
)

type pair struct{ pub, priv string }

var (
	keysOnce sync.Once
	keys     [3]pair
	slots    = [3]string{"s0", "s1", "s2"}
	master   = []byte("this key len is exactly 32 bytes")
)

func genKeys() {
	keysOnce.Do(func() {
		for i := range keys {
			k, err := crypto.GenerateKey(fmt.Sprintf("k%d", i), fmt.Sprintf("k%d@example.org", i), "x25519", 0)
			if err != nil {
				panic(err)
			}
			priv, err := k.Armor()
			if err != nil {
				panic(err)
			}
			pub, err := k.GetArmoredPublicKey()
			if err != nil {
				panic(err)
			}
			keys[i] = pair{pub, priv}
		}
	})
}

// model: slot -> key pair index (or -1 absent); initialised flag.
type kmodel struct {
	init bool
	live [3]int
}

func (m kmodel) canon() string { return fmt.Sprintf("%v%v", m.init, m.live) }

func (m kmodel) nlive() int {
	n := 0
	for _, l := range m.live {
		if l >= 0 {
			n++
		}
	}
	return n
}

type inst struct {
	ks *keystorage.KeyStorage
	m  kmodel
}

func newInst() seqx.Inst {
	genKeys()
	return &inst{ks: &keystorage.KeyStorage{}, m: kmodel{live: [3]int{-1, -1, -1}}}
}

func (in *inst) Close()        {}
func (in *inst) Canon() string { return in.m.canon() }

func (in *inst) Ops() []string {
	var out []string
	for s := 0; s < 3; s++ {
		for k := 0; k < 3; k++ {
			out = append(out, fmt.Sprintf("init %d %d", s, k))
			out = append(out, fmt.Sprintf("del %d %d", s, k))
		}
	}
	for n := 0; n < 3; n++ {
		for p := 0; p < 3; p++ {
			for o := 0; o < 3; o++ {
				for k := 0; k < 3; k++ {
					out = append(out, fmt.Sprintf("add %d %d %d %d", n, p, o, k))
				}
			}
		}
	}
	// invalid public keys: the operation must fail with the encryption tag and change nothing
	for n := 0; n < 3; n++ {
		for o := 0; o < 3; o++ {
			out = append(out, fmt.Sprintf("addbad %d %d", n, o))
		}
		out = append(out, fmt.Sprintf("initbad %d", n))
	}
	out = append(out, "roundtrip")
	return out
}

func tagOf(err error) string {
	switch {
	case err == nil:
		return "ok"
	case xerrors.TagIs[keystorage.NotInitializedTag](err):
		return "notinit"
	case xerrors.TagIs[keystorage.AlreadyInitializedTag](err):
		return "alreadyinit"
	case xerrors.TagIs[keystorage.SlotAlreadyExists](err):
		return "slotexists"
	case xerrors.TagIs[keystorage.SlotNotFoundTag](err):
		return "slotnotfound"
	case xerrors.TagIs[keystorage.VersionMismatchTag](err):
		return "version"
	case xerrors.TagIs[keystorage.HMACMismatchTag](err):
		return "hmac"
	case xerrors.TagIs[keystorage.AlgorithmMismatchTag](err):
		return "algorithm"
	case xerrors.TagIs[keystorage.KeyDecryptionFailureTag](err):
		return "decrypt"
	case xerrors.TagIs[keystorage.KeyEncryptionFailureTag](err):
		return "encrypt"
	case xerrors.TagIs[keystorage.LastKeyTag](err):
		return "lastkey"
	}
	return "other:" + err.Error()
}

// expectGet is the model's verdict for GetMasterKey(slot, key).
func (m kmodel) expectGet(s, k int) string {
	switch {
	case !m.init:
		return "notinit"
	case m.live[s] < 0:
		return "slotnotfound"
	case m.live[s] != k:
		return "decrypt"
	}
	return "ok"
}

func (in *inst) observe() string {
	for s := 0; s < 3; s++ {
		for k := 0; k < 3; k++ {
			if in.m.init && in.m.live[s] >= 0 && in.m.live[s] != k && k != (in.m.live[s]+1)%3 {
				continue // one wrong key per live slot is enough
			}
			got, err := in.ks.GetMasterKey(slots[s], keys[k].priv)
			want := in.m.expectGet(s, k)
			if tagOf(err) != want {
				return fmt.Sprintf("GetMasterKey(slot %d, key %d) = %s, model says %s (state %s)", s, k, tagOf(err), want, in.m.canon())
			}
			if err == nil && !bytes.Equal(got, master) {
				return fmt.Sprintf("GetMasterKey(slot %d, key %d) returned a different master key", s, k)
			}
		}
	}
	return ""
}

func (in *inst) Apply(op string) string {
	var a, b, c, d int
	switch {
	case strings.HasPrefix(op, "init "):
		fmt.Sscanf(op, "init %d %d", &a, &b)
		err := in.ks.Initialize(master, slots[a], keys[b].pub)
		want := "ok"
		if in.m.init {
			want = "alreadyinit"
		}
		if tagOf(err) != want {
			return fmt.Sprintf("Initialize = %s, model says %s", tagOf(err), want)
		}
		if err == nil {
			in.m.init = true
			in.m.live[a] = b
		}
	case strings.HasPrefix(op, "del "):
		fmt.Sscanf(op, "del %d %d", &a, &b)
		err := in.ks.DeleteKeySlot(slots[a], keys[b].priv)
		want := "ok"
		switch {
		case !in.m.init:
			want = "notinit"
		case in.m.nlive() == 1:
			want = "lastkey"
		case in.m.live[a] < 0:
			want = "slotnotfound"
		case in.m.live[a] != b:
			want = "decrypt"
		}
		if tagOf(err) != want {
			return fmt.Sprintf("DeleteKeySlot(%d,key %d) = %s, model says %s (state %s)", a, b, tagOf(err), want, in.m.canon())
		}
		if err == nil {
			in.m.live[a] = -1
		}
	case strings.HasPrefix(op, "add "):
		fmt.Sscanf(op, "add %d %d %d %d", &a, &b, &c, &d)
		err := in.ks.AddKeySlot(slots[a], keys[b].pub, slots[c], keys[d].priv)
		want := "ok"
		switch {
		case in.m.live[a] >= 0:
			want = "slotexists"
		case !in.m.init:
			want = "notinit"
		case in.m.live[c] < 0:
			want = "slotnotfound"
		case in.m.live[c] != d:
			want = "decrypt"
		}
		if tagOf(err) != want {
			return fmt.Sprintf("AddKeySlot(new %d pair %d via %d key %d) = %s, model says %s (state %s)", a, b, c, d, tagOf(err), want, in.m.canon())
		}
		if err == nil {
			in.m.live[a] = b
		}
	case strings.HasPrefix(op, "addbad"):
		fmt.Sscanf(op, "addbad %d %d", &a, &c)
		want := "encrypt"
		switch {
		case in.m.live[a] >= 0:
			want = "slotexists"
		case !in.m.init:
			want = "notinit"
		case in.m.live[c] < 0:
			want = "slotnotfound"
		}
		key := "not a pgp public key"
		if want == "encrypt" {
			key = keys[in.m.live[c]].pub[:40] // truncated armor
		}
		priv := keys[0].priv
		if in.m.live[c] >= 0 {
			priv = keys[in.m.live[c]].priv
		}
		err := in.ks.AddKeySlot(slots[a], key, slots[c], priv)
		if tagOf(err) != want {
			return fmt.Sprintf("AddKeySlot(new %d with an unparsable public key via %d) = %s, model says %s (state %s)", a, c, tagOf(err), want, in.m.canon())
		}
	case strings.HasPrefix(op, "initbad"):
		fmt.Sscanf(op, "initbad %d", &a)
		err := in.ks.Initialize(master, slots[a], "not a pgp public key")
		want := "encrypt"
		if in.m.init {
			want = "alreadyinit"
		}
		if tagOf(err) != want {
			return fmt.Sprintf("Initialize with an unparsable public key = %s, model says %s", tagOf(err), want)
		}
	case op == "roundtrip":
		data, err := in.ks.MarshalBinary()
		if err != nil {
			return "marshal: " + err.Error()
		}
		fresh := &keystorage.KeyStorage{}
		err = fresh.UnmarshalBinary(data)
		if !in.m.init {
			if tagOf(err) != "version" {
				return fmt.Sprintf("unmarshal of an uninitialised storage = %s, expected a version mismatch", tagOf(err))
			}
			return in.observe()
		}
		if err != nil {
			return "unmarshal: " + err.Error()
		}
		in.ks = fresh
	}
	if msg := in.observe(); msg != "" {
		return msg
	}
	// what MarshalBinary hands out right now must restore to the same answers (the object stays in use, so
	// anything it remembers from an earlier serialisation is in play)
	if in.m.init {
		data, err := in.ks.MarshalBinary()
		if err != nil {
			return "marshal: " + err.Error()
		}
		restored := &keystorage.KeyStorage{}
		if err := restored.UnmarshalBinary(data); err != nil {
			return "unmarshal of the current serialisation: " + err.Error()
		}
		chk := &inst{ks: restored, m: in.m}
		if msg := chk.observe(); msg != "" {
			return "a storage restored from MarshalBinary after this operation: " + msg
		}
	}
	return ""
}

// ---------------------------------------------------------------- tampering

// reach builds a storage with the given live map using the public API.
func reach(live [3]int) *keystorage.KeyStorage {
	ks := &keystorage.KeyStorage{}
	first := -1
	for s, k := range live {
		if k < 0 {
			continue
		}
		if first < 0 {
			if err := ks.Initialize(master, slots[s], keys[k].pub); err != nil {
				panic(err)
			}
			first = s
			continue
		}
		if err := ks.AddKeySlot(slots[s], keys[k].pub, slots[first], keys[live[first]].priv); err != nil {
			panic(err)
		}
	}
	return ks
}

type tamper struct {
	name   string
	mutate func(st *key_storage.Storage) bool // false = not applicable
	// mustDetect: the statement promises detection
	mustDetect bool
}

func tampers(st *key_storage.Storage) []tamper {
	var out []tamper
	ids := make([]string, 0, len(st.KeySlots))
	for id := range st.KeySlots {
		ids = append(ids, id)
	}
	sort.Strings(ids)
	for _, id := range ids {
		n := len(st.KeySlots[id].EncryptedKey)
		body := bytes.Index(st.KeySlots[id].EncryptedKey, []byte("\n\n")) + 2
		end := bytes.LastIndex(st.KeySlots[id].EncryptedKey, []byte("\n-----END")) - 1
		for _, pos := range []int{0, 5, body, body + 1, (body + end) / 2, end - 8, end - 6, end, n - 3} {
			for _, mode := range []string{"xor1", "swapcase"} {
				id, pos, mode := id, pos, mode
				out = append(out, tamper{name: fmt.Sprintf("blob %s byte %d %s", id, pos, mode), mustDetect: true, mutate: func(s *key_storage.Storage) bool {
					b := s.KeySlots[id].EncryptedKey
					if pos < 0 || pos >= len(b) {
						return false
					}
					old := b[pos]
					if mode == "xor1" {
						b[pos] ^= 1
					} else {
						b[pos] ^= 0x20
					}
					return b[pos] != old
				}})
			}
		}
		// alterations an ASCII-armor reader would not mind (seed c20i): the stored blob is authenticated byte for
		// byte, so edge and inner whitespace count as alterations too
		for _, ws := range []struct{ name, pre, post string }{{"append-newline", "", "\n"}, {"append-space", "", " "}, {"append-crlf", "", "\r\n"}, {"append-tab", "", "\t"}, {"prepend-newline", "\n", ""}, {"prepend-space", " ", ""}, {"wrap-newlines", "\n", "\n"}} {
			id, ws := id, ws
			out = append(out, tamper{name: fmt.Sprintf("blob %s whitespace %s", id, ws.name), mustDetect: true, mutate: func(s *key_storage.Storage) bool {
				b := s.KeySlots[id].EncryptedKey
				s.KeySlots[id].EncryptedKey = append(append([]byte(ws.pre), b...), ws.post...)
				return true
			}})
		}
		{
			id, mid := id, (body+end)/2
			out = append(out, tamper{name: fmt.Sprintf("blob %s whitespace inner-newline", id), mustDetect: true, mutate: func(s *key_storage.Storage) bool {
				b := s.KeySlots[id].EncryptedKey
				if mid <= 0 || mid >= len(b) {
					return false
				}
				s.KeySlots[id].EncryptedKey = append(append(bytes.Clone(b[:mid]), '\n'), b[mid:]...)
				return true
			}})
		}
		id := id
		out = append(out, tamper{name: "remove slot " + id, mustDetect: true, mutate: func(s *key_storage.Storage) bool {
			if len(s.KeySlots) < 2 {
				return false
			}
			delete(s.KeySlots, id)
			return true
		}})
		out = append(out, tamper{name: "add slot copying " + id, mustDetect: true, mutate: func(s *key_storage.Storage) bool {
			s.KeySlots["zz-extra"] = &key_storage.KeySlot{Algorithm: s.KeySlots[id].Algorithm, EncryptedKey: bytes.Clone(s.KeySlots[id].EncryptedKey)}
			return true
		}})
		out = append(out, tamper{name: "algorithm of " + id, mustDetect: false, mutate: func(s *key_storage.Storage) bool {
			s.KeySlots[id].Algorithm = key_storage.Algorithm_UNKNOWN
			return true
		}})
		out = append(out, tamper{name: "truncate blob " + id, mustDetect: true, mutate: func(s *key_storage.Storage) bool {
			s.KeySlots[id].EncryptedKey = s.KeySlots[id].EncryptedKey[:len(s.KeySlots[id].EncryptedKey)/2]
			return true
		}})
	}
	out = append(out, tamper{name: "add garbage slot", mustDetect: true, mutate: func(s *key_storage.Storage) bool {
		s.KeySlots["aa-garbage"] = &key_storage.KeySlot{Algorithm: key_storage.Algorithm_PGP_AES_GCM_256, EncryptedKey: []byte("garbage")}
		return true
	}})
	for i := 0; i < 32; i++ {
		i := i
		out = append(out, tamper{name: fmt.Sprintf("hmac byte %d", i), mustDetect: true, mutate: func(s *key_storage.Storage) bool {
			if i >= len(s.KeysHmacHash) {
				return false
			}
			s.KeysHmacHash[i] ^= 0x80
			return true
		}})
	}
	out = append(out, tamper{name: "hmac truncated", mustDetect: true, mutate: func(s *key_storage.Storage) bool { s.KeysHmacHash = s.KeysHmacHash[:31]; return true }})
	out = append(out, tamper{name: "hmac emptied", mustDetect: true, mutate: func(s *key_storage.Storage) bool { s.KeysHmacHash = nil; return true }})
	out = append(out, tamper{name: "storage version 0", mustDetect: true, mutate: func(s *key_storage.Storage) bool { s.StorageVersion = 0; return true }})
	out = append(out, tamper{name: "storage version 2", mustDetect: true, mutate: func(s *key_storage.Storage) bool { s.StorageVersion = 2; return true }})
	return out
}

func tamperScenario() explore.Scenario {
	return explore.Scenario{
		Name:       "tamper/all-states",
		Desc:       "from every reachable (slot -> key pair) state: serialise, alter exactly one thing (blob bytes at a spread of offsets, each HMAC byte, version, slot added/removed), unmarshal, every GetMasterKey of a live slot must fail",
		Sequential: true,
		Body: func(x *explore.X) {
			genKeys()
			states, cases, detected, informational := 0, 0, 0, 0
			for code := 1; code < 64; code++ {
				live := [3]int{code%4 - 1, (code/4)%4 - 1, (code/16)%4 - 1}
				if live[0] < 0 && live[1] < 0 && live[2] < 0 {
					continue
				}
				states++
				data, err := reach(live).MarshalBinary()
				if err != nil {
					panic(err)
				}
				var ref key_storage.Storage
				if err := ref.UnmarshalVT(data); err != nil {
					panic(err)
				}
				seenClass := map[string]bool{}
				used := reach(live) // an object that has run Initialize/AddKeySlot itself: altered bytes are also loaded into it
				for ti, t := range tampers(&ref) {
					var st key_storage.Storage
					if err := st.UnmarshalVT(data); err != nil {
						panic(err)
					}
					t = tampers(&st)[ti]
					if !t.mutate(&st) {
						continue
					}
					cases++
					tdata, err := st.MarshalVT()
					if err != nil {
						panic(err)
					}
					ks := &keystorage.KeyStorage{}
					uerr := ks.UnmarshalBinary(tdata)
					allFail := true
					var tags []string
					for s, k := range live {
						if k < 0 {
							continue
						}
						if uerr != nil {
							tags = append(tags, "unmarshal:"+tagOf(uerr))
							continue
						}
						got, gerr := ks.GetMasterKey(slots[s], keys[k].priv)
						tags = append(tags, tagOf(gerr))
						if gerr == nil {
							allFail = false
							_ = got
						}
					}
					if cases <= 2 {
						x.Sample(map[string]any{"state": fmt.Sprint(live), "tamper": t.name, "results": tags})
					}
					switch {
					case allFail:
						detected++
					case t.mustDetect:
						x.FailKey("tamper/"+strings.Fields(t.name)[0], "state %v, tamper %q: a key retrieval still succeeded (%v)", live, t.name, tags)
					default:
						informational++
					}
					// the same bytes loaded into an object that has already been used (its own earlier integrity
					// tag must play no part in checking the loaded one)
					// (not for removed slots: UnmarshalBinary merges into what the object holds, so a removed slot
					// simply stays - the loaded state is then the untampered one)
					if t.mustDetect && uerr == nil && allFail && strings.Fields(t.name)[0] != "remove" {
						if err := used.UnmarshalBinary(tdata); err == nil {
							cases++
							for s, k := range live {
								if k < 0 {
									continue
								}
								if _, gerr := used.GetMasterKey(slots[s], keys[k].priv); gerr == nil {
									x.FailKey("tamper-into-used-object/"+strings.Fields(t.name)[0], "state %v, tamper %q loaded into a storage object that was in use: GetMasterKey(slot %d) succeeds (a fresh object rejects the same bytes)", live, t.name, s)
								}
								break // one retrieval is enough
							}
						}
						if err := used.UnmarshalBinary(data); err != nil {
							panic(err)
						}
					}
					// a legitimate slot operation in between must not launder the alteration: whatever it does,
					// the next retrieval of every slot that is still there must fail as well (one alteration of
					// each class per state, one delete and one add)
					class := strings.Fields(t.name)[0]
					if !(allFail && t.mustDetect && uerr == nil) || seenClass[class] {
						continue
					}
					seenClass[class] = true
					var between []string
					nl, firstLive, free := 0, -1, -1
					for s, k := range live {
						if k >= 0 {
							nl++
							if firstLive < 0 {
								firstLive = s
							}
						} else if free < 0 {
							free = s
						}
					}
					if nl >= 2 {
						for s := 2; s >= 0; s-- {
							if live[s] >= 0 {
								between = append(between, fmt.Sprintf("del %d %d", s, live[s]))
								break
							}
						}
					}
					if free >= 0 {
						between = append(between, fmt.Sprintf("add %d %d %d %d", free, (live[firstLive]+1)%3, firstLive, live[firstLive]))
					}
					for _, op := range between {
						ks2 := &keystorage.KeyStorage{}
						if err := ks2.UnmarshalBinary(tdata); err != nil {
							continue
						}
						cases++
						res := realApply(ks2, op)
						var a, b int
						if strings.HasPrefix(op, "del ") {
							fmt.Sscanf(op, "del %d %d", &a, &b)
						} else {
							a = -1
						}
						for s, k := range live {
							if k < 0 || s == a && res == "ok" {
								continue
							}
							if _, gerr := ks2.GetMasterKey(slots[s], keys[k].priv); gerr == nil {
								x.FailKey("tamper-then-op/"+class, "state %v, tamper %q, then %q (-> %s): GetMasterKey(slot %d) succeeds - the alteration is no longer detected", live, t.name, op, res, s)
							}
						}
					}
				}
			}
			x.Add("states", states)
			x.Add("transitions", cases)
			x.Add("evaluations", cases)
			x.Add("distinct_nontrivial", detected)
			x.Add("traces_validated_against_impl", cases)
			x.Add("tamper_cases_not_promised_undetected", informational)
			x.Outcome("states=%d cases=%d detected=%d", states, cases, detected)
		},
	}
}

// ---------------------------------------------------------------- concurrent callers

// modelApply is the sequential specification of one operation: the expected result tag and the effect.
func modelApply(m *kmodel, op string) string {
	var a, b, c, d int
	switch {
	case strings.HasPrefix(op, "init "):
		fmt.Sscanf(op, "init %d %d", &a, &b)
		if m.init {
			return "alreadyinit"
		}
		m.init = true
		m.live[a] = b
		return "ok"
	case strings.HasPrefix(op, "del "):
		fmt.Sscanf(op, "del %d %d", &a, &b)
		switch {
		case !m.init:
			return "notinit"
		case m.nlive() == 1:
			return "lastkey"
		case m.live[a] < 0:
			return "slotnotfound"
		case m.live[a] != b:
			return "decrypt"
		}
		m.live[a] = -1
		return "ok"
	case strings.HasPrefix(op, "add "):
		fmt.Sscanf(op, "add %d %d %d %d", &a, &b, &c, &d)
		switch {
		case m.live[a] >= 0:
			return "slotexists"
		case !m.init:
			return "notinit"
		case m.live[c] < 0:
			return "slotnotfound"
		case m.live[c] != d:
			return "decrypt"
		}
		m.live[a] = b
		return "ok"
	case strings.HasPrefix(op, "get "):
		fmt.Sscanf(op, "get %d %d", &a, &b)
		return m.expectGet(a, b)
	}
	panic("modelApply: " + op)
}

func realApply(ks *keystorage.KeyStorage, op string) string {
	var a, b, c, d int
	switch {
	case strings.HasPrefix(op, "init "):
		fmt.Sscanf(op, "init %d %d", &a, &b)
		return tagOf(ks.Initialize(master, slots[a], keys[b].pub))
	case strings.HasPrefix(op, "del "):
		fmt.Sscanf(op, "del %d %d", &a, &b)
		return tagOf(ks.DeleteKeySlot(slots[a], keys[b].priv))
	case strings.HasPrefix(op, "add "):
		fmt.Sscanf(op, "add %d %d %d %d", &a, &b, &c, &d)
		return tagOf(ks.AddKeySlot(slots[a], keys[b].pub, slots[c], keys[d].priv))
	case strings.HasPrefix(op, "get "):
		fmt.Sscanf(op, "get %d %d", &a, &b)
		got, err := ks.GetMasterKey(slots[a], keys[b].priv)
		if err == nil && !bytes.Equal(got, master) {
			return "wrong-master-key"
		}
		return tagOf(err)
	}
	panic("realApply: " + op)
}

// concScenario: two callers on one storage; every schedule must be explained by one of the two sequential
// orders: both result tags and every (slot, key) retrieval afterwards.
func concScenario(pre []string, a, b string) explore.Scenario {
	return explore.Scenario{
		Name:   fmt.Sprintf("conc/%s/%s||%s", strings.Join(pre, ","), a, b),
		Desc:   fmt.Sprintf("after %v, callers [%s] and [%s] run concurrently on the same KeyStorage; all schedules: results and the final (slot,key) retrieval table equal one of the two sequential orders of the reference model", pre, a, b),
		Bounds: []int{-1},
		Body: func(x *explore.X) {
			genKeys()
			in := &inst{ks: &keystorage.KeyStorage{}, m: kmodel{live: [3]int{-1, -1, -1}}}
			vrt.Branching(false)
			for _, op := range pre {
				if msg := in.Apply(op); msg != "" {
					x.Failf("prelude %s: %s", op, msg)
					return
				}
			}
			vrt.Branching(true)
			var ra, rb string
			vrt.GoNamed("A", func() { ra = realApply(in.ks, a) })
			vrt.GoNamed("B", func() { rb = realApply(in.ks, b) })
			vrt.WaitQuiescent()
			vrt.Branching(false)
			var why []string
			for _, order := range [][2]string{{a, b}, {b, a}} {
				m := in.m
				w0, w1 := modelApply(&m, order[0]), modelApply(&m, order[1])
				wa, wb := w0, w1
				if order[0] != a || (a == b && false) {
					wa, wb = w1, w0
				}
				if a == b {
					// identical calls: either caller may be the first
					if !((ra == w0 && rb == w1) || (ra == w1 && rb == w0)) {
						why = append(why, fmt.Sprintf("sequential results %s,%s", w0, w1))
						continue
					}
				} else if ra != wa || rb != wb {
					why = append(why, fmt.Sprintf("order %v gives %s / %s", order, wa, wb))
					continue
				}
				chk := &inst{ks: in.ks, m: m}
				if msg := chk.observe(); msg != "" {
					why = append(why, fmt.Sprintf("order %v matches the results but afterwards %s", order, msg))
					continue
				}
				x.Outcome("%s/%s", ra, rb)
				return
			}
			x.Failf("after %v: [%s] -> %s and [%s] -> %s concurrently: no sequential order explains it (%s)", pre, a, ra, b, rb, strings.Join(why, "; "))
		},
	}
}

func concScenarios() []explore.Scenario {
	var out []explore.Scenario
	for _, g := range []struct {
		pre []string
		ops []string
	}{
		{nil, []string{"init 0 0", "init 1 1", "add 1 1 0 0", "get 0 0"}},
		{[]string{"init 0 0"}, []string{"add 1 1 0 0", "add 1 2 0 0", "add 2 2 0 0", "del 0 0", "init 1 1", "get 0 0"}},
		{[]string{"init 0 0", "add 1 1 0 0"}, []string{"del 0 0", "del 1 1", "add 2 2 0 0", "add 2 2 1 1", "get 1 1"}},
	} {
		for i, a := range g.ops {
			for _, b := range g.ops[i:] {
				out = append(out, concScenario(g.pre, a, b))
			}
		}
	}
	return out
}

func build(tier string) []explore.Scenario {
	depth := 4
	if tier == "thorough" {
		depth = 6
	}
	return append([]explore.Scenario{
		{
			Name:       fmt.Sprintf("bfs/depth%d", depth),
			Desc:       "BFS over initialise / add-slot (right and wrong keys, all slot x pair combinations) / delete-slot / marshal->unmarshal from every reachable (slot -> key pair) state; after every step every (slot,key) retrieval is compared with the model",
			Sequential: true,
			Body: func(x *explore.X) {
				res := seqx.BFS(newInst, depth, 16, 3)
				x.Add("states", res.States)
				x.Add("transitions", res.Transitions)
				x.Add("evaluations", res.Transitions)
				x.Add("distinct_nontrivial", res.States)
				x.Add("traces_validated_against_impl", res.Transitions)
				for _, h := range res.SampleHist {
					x.Sample(map[string]any{"history": h})
				}
				x.Outcome("states=%d transitions=%d", res.States, res.Transitions)
				for _, v := range res.Violations {
					x.FailKey("bfs", "%s", v.String())
				}
			},
		},
		tamperScenario(),
	}, concScenarios()...)
}

func main() {
	explore.Main(explore.Config{
		Property:  "C20",
		Technique: "explicit-state BFS over key-storage operation sequences vs a reference model (all transitions from all reachable abstract states) + exhaustive single-field tampering of the serialised form from every reachable state",
		Rule:      "BFS: every operation of the alphabet from every reachable (initialised?, slot->key pair) state; tampering: one alteration per case; non-trivial = distinct abstract states / detected tamper cases",
		Extra:     map[string]any{"explanation": "states = distinct abstract (initialised?, slot->key pair) states reached by the BFS plus states tampered with; transitions = operations / tamper cases executed on the real KeyStorage"},
		Assume:    []string{"three slot ids and three x25519 key pairs generated once per run", "alterations the statement does not promise to detect (algorithm enum) are reported, not asserted"},
	}, build)
}
