// Package lb is an in-process transport between the gRPC client adapter and server.State: it really
// marshals every message with the generated vtproto code, converts handler errors with the grpc status
// package, runs stream handlers as goroutines (managed by vrt when active) and can inject transport
// faults at chosen message indices.
package lb

import (
	"context"
	"errors"
	"io"
	"sync"

	"google.golang.org/grpc"
	"google.golang.org/grpc/codes"
	"google.golang.org/grpc/metadata"
	"google.golang.org/grpc/status"

	"github.com/cosi-project/runtime/api/v1alpha1"
	"github.com/cosi-project/runtime/pkg/controller/conformance"
	"github.com/cosi-project/runtime/pkg/resource/protobuf"
	"verif.local/vrt"
	"verif.local/vrt/vctx"
)

type vtMessage interface {
	MarshalVT() ([]byte, error)
	UnmarshalVT([]byte) error
}

// roundTrip moves a message through its wire form.
func roundTrip[T any, PT interface {
	*T
	vtMessage
}](in PT) PT {
	if in == nil {
		return nil
	}
	b, err := in.MarshalVT()
	if err != nil {
		panic(err)
	}
	out := PT(new(T))
	if err := out.UnmarshalVT(b); err != nil {
		panic(err)
	}
	return out
}

// toStatus converts a handler error the way the grpc server does.
func toStatus(ctx context.Context, err error) error {
	if err == nil {
		return nil
	}
	if _, ok := status.FromError(err); ok {
		return status.Convert(err).Err()
	}
	if errors.Is(err, context.Canceled) || errors.Is(err, context.DeadlineExceeded) {
		return status.FromContextError(err).Err()
	}
	return status.Error(codes.Unknown, err.Error())
}

// Faults decides transport failures; nil means a perfect transport.
type Faults interface {
	// WatchCall is consulted when the n-th (0-based) Watch stream is being established; a non-nil
	// error is returned to the client instead of a stream.
	WatchCall(n int) error
	// WatchRecv is consulted before the client receives message idx (0-based, the "ready" message is
	// idx 0) of Watch stream n; a non-nil error breaks the stream with that error.
	WatchRecv(n, idx int) error
	// WatchLost is consulted after message idx of Watch stream n left the server side: a non-nil error
	// means the message is lost in transit and the stream breaks with that error.
	WatchLost(n, idx int) error
}

// Client implements v1alpha1.StateClient on top of a StateServer.
type Client struct {
	Srv       v1alpha1.StateServer
	Faults    Faults
	NWatch    int
	Calls     map[string]int
	NoNative  bool // answer Unimplemented for Teardown / TeardownAndDestroy
	StreamBuf int
	// Parent maps the goroutine id of a stream handler to the goroutine that made the call (under vrt).
	Parent map[int]int
}

var registerOnce sync.Once

// RegisterConformanceResources registers the conformance Int/Str resources for typed unmarshalling.
func RegisterConformanceResources() {
	registerOnce.Do(func() {
		if err := protobuf.RegisterResource(conformance.IntResourceType, &conformance.IntResource{}); err != nil {
			panic(err)
		}
		if err := protobuf.RegisterResource(conformance.StrResourceType, &conformance.StrResource{}); err != nil {
			panic(err)
		}
	})
}

// New returns a loopback client.
func New(srv v1alpha1.StateServer) *Client {
	RegisterConformanceResources()
	return &Client{Srv: srv, Calls: map[string]int{}, StreamBuf: 4, Parent: map[int]int{}}
}

var _ v1alpha1.StateClient = (*Client)(nil)

// mu guards the bookkeeping below when the loopback runs free (passthrough mode, race-detector pass); it
// is never held across a scheduling point.
var mu sync.Mutex

func (c *Client) count(name string) { mu.Lock(); c.Calls[name]++; mu.Unlock() }

// Get implements StateClient.
func (c *Client) Get(ctx context.Context, in *v1alpha1.GetRequest, _ ...grpc.CallOption) (*v1alpha1.GetResponse, error) {
	c.count("Get")
	resp, err := c.Srv.Get(ctx, roundTrip(in))
	if err != nil {
		return nil, toStatus(ctx, err)
	}
	return roundTrip(resp), nil
}

// Create implements StateClient.
func (c *Client) Create(ctx context.Context, in *v1alpha1.CreateRequest, _ ...grpc.CallOption) (*v1alpha1.CreateResponse, error) {
	c.count("Create")
	resp, err := c.Srv.Create(ctx, roundTrip(in))
	if err != nil {
		return nil, toStatus(ctx, err)
	}
	return roundTrip(resp), nil
}

// Update implements StateClient.
func (c *Client) Update(ctx context.Context, in *v1alpha1.UpdateRequest, _ ...grpc.CallOption) (*v1alpha1.UpdateResponse, error) {
	c.count("Update")
	resp, err := c.Srv.Update(ctx, roundTrip(in))
	if err != nil {
		return nil, toStatus(ctx, err)
	}
	return roundTrip(resp), nil
}

// Destroy implements StateClient.
func (c *Client) Destroy(ctx context.Context, in *v1alpha1.DestroyRequest, _ ...grpc.CallOption) (*v1alpha1.DestroyResponse, error) {
	c.count("Destroy")
	resp, err := c.Srv.Destroy(ctx, roundTrip(in))
	if err != nil {
		return nil, toStatus(ctx, err)
	}
	return roundTrip(resp), nil
}

// Teardown implements StateClient.
func (c *Client) Teardown(ctx context.Context, in *v1alpha1.TeardownRequest, _ ...grpc.CallOption) (*v1alpha1.TeardownResponse, error) {
	c.count("Teardown")
	if c.NoNative {
		return nil, status.Error(codes.Unimplemented, "method Teardown not implemented")
	}
	resp, err := c.Srv.Teardown(ctx, roundTrip(in))
	if err != nil {
		return nil, toStatus(ctx, err)
	}
	return roundTrip(resp), nil
}

// TeardownAndDestroy implements StateClient.
func (c *Client) TeardownAndDestroy(ctx context.Context, in *v1alpha1.TeardownAndDestroyRequest, _ ...grpc.CallOption) (*v1alpha1.TeardownAndDestroyResponse, error) {
	c.count("TeardownAndDestroy")
	if c.NoNative {
		return nil, status.Error(codes.Unimplemented, "method TeardownAndDestroy not implemented")
	}
	resp, err := c.Srv.TeardownAndDestroy(ctx, roundTrip(in))
	if err != nil {
		return nil, toStatus(ctx, err)
	}
	return roundTrip(resp), nil
}

// stream carries messages of one server-streaming call.
type stream[T any, PT interface {
	*T
	vtMessage
}] struct {
	ctx    context.Context
	cancel context.CancelFunc
	ch     chan PT
	done   chan struct{}
	err    error
	recvN  int
	onRecv func(idx int) error
	onLost func(idx int) error
	broken error
}

// server side

func (s *stream[T, PT]) Send(m PT) error {
	if vrt.Select(false, vrt.SendCase(s.ch).With(roundTrip[T, PT](m)), vrt.RecvCase(s.ctx.Done())) == 1 {
		return status.FromContextError(s.ctx.Err()).Err()
	}
	return nil
}
func (s *stream[T, PT]) Context() context.Context     { return s.ctx }
func (s *stream[T, PT]) SetHeader(metadata.MD) error  { return nil }
func (s *stream[T, PT]) SendHeader(metadata.MD) error { return nil }
func (s *stream[T, PT]) SetTrailer(metadata.MD)       {}
func (s *stream[T, PT]) SendMsg(any) error            { panic("not used") }
func (s *stream[T, PT]) RecvMsg(any) error            { panic("not used") }

// client side

type clientStream[T any, PT interface {
	*T
	vtMessage
}] struct{ s *stream[T, PT] }

func (c clientStream[T, PT]) Recv() (PT, error) {
	s := c.s
	if s.broken != nil {
		return nil, s.broken
	}
	if s.onRecv != nil {
		if err := s.onRecv(s.recvN); err != nil {
			s.broken = err
			s.cancel() // the transport is gone: the server side sees a cancelled stream
			return nil, err
		}
	}
	rc := vrt.RecvCase((<-chan PT)(s.ch))
	switch vrt.Select(false, rc, vrt.RecvCase((<-chan struct{})(s.done)), vrt.RecvCase(s.ctx.Done())) {
	case 0:
		s.recvN++
		if s.onLost != nil {
			if err := s.onLost(s.recvN - 1); err != nil {
				s.broken = err
				s.cancel()
				return nil, err
			}
		}
		return rc.Value, nil
	case 1:
		// handler finished: deliver what is still buffered first
		rc2 := vrt.RecvCase((<-chan PT)(s.ch))
		if vrt.Select(true, rc2) == 0 {
			s.recvN++
			return rc2.Value, nil
		}
		if s.err != nil {
			return nil, s.err
		}
		return nil, io.EOF
	default:
		return nil, status.FromContextError(s.ctx.Err()).Err()
	}
}
func (c clientStream[T, PT]) Header() (metadata.MD, error) { return nil, nil }
func (c clientStream[T, PT]) Trailer() metadata.MD         { return nil }
func (c clientStream[T, PT]) CloseSend() error             { return nil }
func (c clientStream[T, PT]) Context() context.Context     { return c.s.ctx }
func (c clientStream[T, PT]) SendMsg(any) error            { panic("not used") }
func (c clientStream[T, PT]) RecvMsg(any) error            { panic("not used") }

// List implements StateClient.
func (c *Client) List(ctx context.Context, in *v1alpha1.ListRequest, _ ...grpc.CallOption) (grpc.ServerStreamingClient[v1alpha1.ListResponse], error) {
	c.count("List")
	sctx, cancel := vctx.WithCancel(ctx)
	s := &stream[v1alpha1.ListResponse, *v1alpha1.ListResponse]{ctx: sctx, cancel: cancel, ch: make(chan *v1alpha1.ListResponse, c.StreamBuf), done: make(chan struct{})}
	req := roundTrip(in)
	vrt.GoNamed("lb:list-handler", func() {
		s.err = toStatus(sctx, c.Srv.List(req, s))
		vrt.Close(s.done)
	})
	return clientStream[v1alpha1.ListResponse, *v1alpha1.ListResponse]{s}, nil
}

// Watch implements StateClient.
func (c *Client) Watch(ctx context.Context, in *v1alpha1.WatchRequest, _ ...grpc.CallOption) (grpc.ServerStreamingClient[v1alpha1.WatchResponse], error) {
	c.count("Watch")
	mu.Lock()
	n := c.NWatch
	c.NWatch++
	mu.Unlock()
	if c.Faults != nil {
		if err := c.Faults.WatchCall(n); err != nil {
			return nil, err
		}
	}
	sctx, cancel := vctx.WithCancel(ctx)
	s := &stream[v1alpha1.WatchResponse, *v1alpha1.WatchResponse]{ctx: sctx, cancel: cancel, ch: make(chan *v1alpha1.WatchResponse, c.StreamBuf), done: make(chan struct{})}
	if c.Faults != nil {
		s.onRecv = func(idx int) error { return c.Faults.WatchRecv(n, idx) }
		s.onLost = func(idx int) error { return c.Faults.WatchLost(n, idx) }
	}
	req := roundTrip(in)
	caller := vrt.CurID()
	vrt.GoNamed("lb:watch-handler", func() {
		mu.Lock()
		c.Parent[vrt.CurID()] = caller
		mu.Unlock()
		s.err = toStatus(sctx, c.Srv.Watch(req, s))
		vrt.Close(s.done)
	})
	return clientStream[v1alpha1.WatchResponse, *v1alpha1.WatchResponse]{s}, nil
}
