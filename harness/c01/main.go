// Harness C01: store operations are linearizable w.r.t. the sequential resource-store spec.
//
// C01a: explicit-state BFS over operation sequences against a reference model, on every CoreState
// flavour. C01b: every schedule of 2 (3) concurrent clients, history checked with porcupine against
// the same model.
package main

import (
	"context"
	"errors"
	"fmt"
	"os"
	"path/filepath"
	"sort"
	"strconv"
	"strings"
	"time"

	"github.com/anishathalye/porcupine"
	"go.etcd.io/bbolt"

	"github.com/cosi-project/runtime/pkg/controller/conformance"
	"github.com/cosi-project/runtime/pkg/resource"
	"github.com/cosi-project/runtime/pkg/state"
	"github.com/cosi-project/runtime/pkg/state/impl/inmem"
	"github.com/cosi-project/runtime/pkg/state/impl/namespaced"
	"github.com/cosi-project/runtime/pkg/state/impl/store"
	"github.com/cosi-project/runtime/pkg/state/impl/store/bolt"
	"verif.local/explore"
	"verif.local/harness/hx"
	"verif.local/seqx"
	"verif.local/vrt"
)

// ---------------------------------------------------------------- reference model

type mres struct {
	version int
	owner   string
	td      bool
	fin     bool
	val     int
}

func (m mres) snap(id string) string {
	s := fmt.Sprintf("test/int/%s@%d", id, m.version)
	if m.owner != "" {
		s += " owner=" + m.owner
	}
	if m.td {
		s += " TD"
	}
	if m.fin {
		s += " fin=[f]"
	}
	return s + fmt.Sprintf(" val=%d", m.val)
}

type model map[string]mres

func (m model) canon() string {
	ids := make([]string, 0, len(m))
	for k := range m {
		ids = append(ids, k)
	}
	sort.Strings(ids)
	var b strings.Builder
	for _, id := range ids {
		b.WriteString(m[id].snap(id))
		b.WriteString("; ")
	}
	return b.String()
}

func (m model) clone() model {
	o := model{}
	for k, v := range m {
		o[k] = v
	}
	return o
}

// op is one fully resolved store operation.
type op struct {
	kind  string // create update destroy get list
	id    string
	owner string
	ver   string // update: cur prev undef next | resolved number in C01b
	exp   string // run td any
	chg   string // val td +f -f none
}

func (o op) String() string {
	switch o.kind {
	case "create", "destroy":
		if o.ver != "" {
			return fmt.Sprintf("%s:%s:own=%s:ver=%s", o.kind, o.id, o.owner, o.ver)
		}
		return fmt.Sprintf("%s:%s:own=%s", o.kind, o.id, o.owner)
	case "update":
		return fmt.Sprintf("update:%s:ver=%s:own=%s:exp=%s:chg=%s", o.id, o.ver, o.owner, o.exp, o.chg)
	case "get":
		return "get:" + o.id
	}
	return "list"
}

func parseOp(s string) op {
	p := strings.Split(s, ":")
	o := op{kind: p[0]}
	if len(p) > 1 {
		o.id = p[1]
	}
	if len(p) < 3 {
		return o
	}
	for _, kv := range p[2:] {
		k, v, _ := strings.Cut(kv, "=")
		switch k {
		case "own":
			o.owner = v
		case "ver":
			o.ver = v
		case "exp":
			o.exp = v
		case "chg":
			o.chg = v
		}
	}
	return o
}

// resolveVersion maps the symbolic version choice onto a number (0 = undefined) given the model.
func resolveVersion(m model, o op) int {
	cur := m[o.id].version // 0 if absent
	switch o.ver {
	case "cur":
		if cur == 0 {
			return 1
		}
		return cur
	case "prev":
		if cur <= 1 {
			return 0
		}
		return cur - 1
	case "undef":
		return 0
	case "next":
		return cur + 1
	}
	n, _ := strconv.Atoi(o.ver)
	return n
}

// reasons returns the failure reasons that apply to o in m (empty = must succeed); ver is resolved.
func reasons(m model, o op, ver int) []string {
	cur, exists := m[o.id]
	var rs []string
	switch o.kind {
	case "create":
		if exists {
			rs = append(rs, "conflict")
		}
	case "update":
		if !exists {
			return []string{"notfound"}
		}
		if cur.owner != o.owner {
			rs = append(rs, "owner")
		}
		if ver != cur.version {
			rs = append(rs, "conflict")
		}
		if (o.exp == "run" && cur.td) || (o.exp == "td" && !cur.td) {
			rs = append(rs, "phase")
		}
	case "destroy":
		if !exists {
			return []string{"notfound"}
		}
		if cur.owner != o.owner {
			rs = append(rs, "owner")
		}
		if cur.fin {
			rs = append(rs, "conflict")
		}
	case "get":
		if !exists {
			return []string{"notfound"}
		}
	}
	return rs
}

// applyModel applies a successful o.
func applyModel(m model, o op) {
	switch o.kind {
	case "create":
		m[o.id] = mres{version: 1, owner: o.owner, val: 1}
	case "update":
		c := m[o.id]
		c.version++
		switch o.chg {
		case "val":
			c.val++
		case "td":
			c.td = true
		case "+f":
			c.fin = true
		case "-f":
			c.fin = false
		}
		m[o.id] = c
	case "destroy":
		delete(m, o.id)
	}
}

// ---------------------------------------------------------------- driving the implementation

func classOf(err error) string {
	switch {
	case err == nil:
		return "ok"
	case state.IsNotFoundError(err):
		return "notfound"
	case state.IsOwnerConflictError(err):
		return "owner"
	case state.IsPhaseConflictError(err):
		return "phase"
	case state.IsConflictError(err):
		return "conflict"
	}
	return "other"
}

// predicates pushes err through every classification predicate, bare and qualified; returns a violation or "".
func predicates(err error) (msg string) {
	defer func() {
		if r := recover(); r != nil {
			msg = fmt.Sprintf("error predicate panicked on %q: %v", err, r)
		}
	}()
	bare := state.IsConflictError(err)
	for _, q := range []struct {
		opts  []state.ErrcheckOption
		match bool
	}{
		{[]state.ErrcheckOption{state.WithResourceType(conformance.IntResourceType)}, true},
		{[]state.ErrcheckOption{state.WithResourceNamespace(hx.NS)}, true},
		{[]state.ErrcheckOption{state.WithResourceType(conformance.IntResourceType), state.WithResourceNamespace(hx.NS)}, true},
		{[]state.ErrcheckOption{state.WithResourceType("other/type")}, false},
		{[]state.ErrcheckOption{state.WithResourceNamespace("other-ns")}, false},
	} {
		got := state.IsConflictError(err, q.opts...)
		if q.match && got != bare {
			return fmt.Sprintf("IsConflictError(%q) with a matching qualifier = %v, bare = %v", err, got, bare)
		}
		if !q.match && got {
			return fmt.Sprintf("IsConflictError(%q) with a non-matching qualifier = true", err)
		}
	}
	state.IsNotFoundError(err)
	state.IsOwnerConflictError(err)
	state.IsPhaseConflictError(err)
	if state.IsOwnerConflictError(err) && !bare {
		return fmt.Sprintf("owner conflict %q is not a conflict", err)
	}
	return ""
}

func version(n int) resource.Version {
	if n == 0 {
		return resource.VersionUndefined
	}
	v, err := resource.ParseVersion(strconv.Itoa(n))
	if err != nil {
		panic(err)
	}
	return v
}

// buildUpdate builds the object an update submits: the current stored object (or a fresh one) with the
// chosen version and change.
func buildUpdate(ctx context.Context, st state.CoreState, m model, o op, ver int) *conformance.IntResource {
	var r *conformance.IntResource
	if cur, err := st.Get(ctx, hx.IntPtr(o.id)); err == nil {
		r = cur.(*conformance.IntResource)
	} else {
		r = conformance.NewIntResource(hx.NS, o.id, 1)
	}
	return mutate(r, o, ver)
}

func mutate(r *conformance.IntResource, o op, ver int) *conformance.IntResource {
	r.Metadata().SetVersion(version(ver))
	// the caller's idea of the creation time is not an input of Update: the stored one is kept, in memory and in
	// what is handed to the backing store
	r.Metadata().SetCreated(time.Unix(1, 0))
	switch o.chg {
	case "val":
		r.SetValue(r.Value() + 1)
	case "td":
		r.Metadata().SetPhase(resource.PhaseTearingDown)
	case "+f":
		r.Metadata().Finalizers().Add("f")
	case "-f":
		r.Metadata().Finalizers().Remove("f")
	}
	return r
}

func updateOpts(o op) []state.UpdateOption {
	opts := []state.UpdateOption{state.WithUpdateOwner(o.owner)}
	switch o.exp {
	case "td":
		opts = append(opts, state.WithExpectedPhase(resource.PhaseTearingDown))
	case "any":
		opts = append(opts, state.WithExpectedPhaseAny())
	}
	return opts
}

// exec runs o on st; obj is the prepared object for updates (nil = build now); returns class, observed snap.
func exec(ctx context.Context, st state.CoreState, o op, obj *conformance.IntResource) (cls, obs string, err error, written resource.Resource) {
	switch o.kind {
	case "create":
		r := conformance.NewIntResource(hx.NS, o.id, 1)
		if o.ver == "stale" {
			// an object that was stored before (a copy held across a destroy, or read from another state):
			// whatever version it carries, a created resource starts at version 1
			r.Metadata().SetVersion(version(3))
		}
		err = st.Create(ctx, r, state.WithCreateOwner(o.owner))
		written = r
	case "update":
		err = st.Update(ctx, obj, updateOpts(o)...)
		written = obj
	case "destroy":
		err = st.Destroy(ctx, hx.IntPtr(o.id), state.WithDestroyOwner(o.owner))
	case "get":
		var r resource.Resource
		r, err = st.Get(ctx, hx.IntPtr(o.id))
		if err == nil {
			obs = hx.Snap(r)
		}
	case "list":
		var l resource.List
		l, err = st.List(ctx, hx.IntKind())
		if err == nil {
			obs = hx.SnapList(l)
		}
	}
	return classOf(err), obs, err, written
}

type fullSnap struct {
	snap             string
	created, updated time.Time
}

func snapshot(ctx context.Context, st state.CoreState) map[string]fullSnap {
	out := map[string]fullSnap{}
	l, err := st.List(ctx, hx.IntKind())
	if err != nil {
		panic(err)
	}
	for _, r := range l.Items {
		out[string(r.Metadata().ID())] = fullSnap{hx.Snap(r), r.Metadata().Created(), r.Metadata().Updated()}
	}
	return out
}

// ---------------------------------------------------------------- C01a: BFS

type flavour struct {
	name string
	new  func() (state.CoreState, func())
	// faulty: the backing store can be armed to reject its next Put/Destroy (op "armfail")
	faulty bool
}

// newFaulty builds the faulty flavour's state together with the switch of its backing store.
func newFaulty() (state.CoreState, *bool) {
	armed := new(bool)
	log := &hx.Log{}
	log.Hook = func(*hx.Commit) error {
		if *armed {
			*armed = false
			return errStore
		}
		return nil
	}
	return hx.NewInmem(log), armed
}

var errStore = errors.New("injected backing store failure")

var tmpSeq int

func flavours() []flavour {
	return []flavour{
		{"inmem", func() (state.CoreState, func()) { return inmem.NewState(hx.NS), func() {} }, false},
		{"namespaced", func() (state.CoreState, func()) { return namespaced.NewState(inmem.Build), func() {} }, false},
		{"filter-allow-all", func() (state.CoreState, func()) {
			return state.Filter(namespaced.NewState(inmem.Build), func(context.Context, state.Access) error { return nil }), func() {}
		}, false},
		{"inmem+recording-store", func() (state.CoreState, func()) {
			log := &hx.Log{}
			return &recState{CoreState: hx.NewInmem(log), log: log}, func() {}
		}, false},
		{"inmem+failing-store", func() (state.CoreState, func()) { st, _ := newFaulty(); return st, func() {} }, true},
		{"inmem+bbolt", func() (state.CoreState, func()) {
			dir := filepath.Join(explore.Root(), ".build", "tmp")
			os.MkdirAll(dir, 0o755)
			f, err := os.CreateTemp(dir, "c01-*.db")
			if err != nil {
				panic(err)
			}
			path := f.Name()
			f.Close()
			os.Remove(path)
			bs, err := bolt.NewBackingStore(func() (*bbolt.DB, error) {
				return bbolt.Open(path, 0o600, &bbolt.Options{NoSync: true, NoFreelistSync: true})
			}, store.ProtobufMarshaler{})
			if err != nil {
				panic(err)
			}
			st := inmem.NewStateWithOptions(inmem.WithBackingStore(bs.WithNamespace(hx.NS)))(hx.NS)
			return st, func() { bs.Close(); os.Remove(path) }
		}, false},
	}
}

// recState is the recording-store flavour: the state together with the log of what its backing store was told.
type recState struct {
	state.CoreState
	log *hx.Log
}

// storeAgrees: what the backing store was told, folded, is what the state returns - every field, creation and update
// times included.
func (r *recState) storeAgrees(ctx context.Context) string {
	told := r.log.StateAt(r.log.Len())
	mem := snapshot(ctx, r.CoreState)
	n := 0
	for _, res := range told {
		if res.Metadata().Type() != conformance.IntResourceType {
			continue
		}
		n++
		id := string(res.Metadata().ID())
		m, ok := mem[id]
		if !ok {
			return fmt.Sprintf("the backing store holds %s, the state does not", hx.Snap(res))
		}
		if m.snap != hx.Snap(res) || !m.created.Equal(res.Metadata().Created()) || !m.updated.Equal(res.Metadata().Updated()) {
			return fmt.Sprintf("the backing store was told %s created=%v updated=%v, the state returns %s created=%v updated=%v", hx.Snap(res), res.Metadata().Created().UnixNano(), res.Metadata().Updated().UnixNano(), m.snap, m.created.UnixNano(), m.updated.UnixNano())
		}
	}
	if n != len(mem) {
		return fmt.Sprintf("the state returns %d resources, the backing store holds %d", len(mem), n)
	}
	return ""
}

type inst struct {
	ctx   context.Context
	st    state.CoreState
	close func()
	m     model
	rich  bool
	// faulty flavour: the store's switch and the model's copy of it
	arm   *bool
	armed bool
}

func (in *inst) Close() { in.close() }

func (in *inst) Canon() string {
	if in.armed {
		return in.m.canon() + " [store armed to fail]"
	}
	return in.m.canon()
}

func (in *inst) Ops() []string {
	var out []string
	owners := []string{"", "o1", "o2"}
	for _, ow := range owners {
		out = append(out, op{kind: "create", id: "a", owner: ow}.String())
		out = append(out, op{kind: "destroy", id: "a", owner: ow}.String())
	}
	if in.arm != nil {
		out = append(out, "armfail")
	}
	out = append(out, op{kind: "create", id: "a", owner: "", ver: "stale"}.String(), op{kind: "create", id: "b", owner: "o1", ver: "stale"}.String())
	out = append(out, op{kind: "create", id: "b", owner: ""}.String(), op{kind: "destroy", id: "b", owner: ""}.String(),
		op{kind: "update", id: "b", ver: "cur", owner: "", exp: "run", chg: "val"}.String(),
		"get:a", "get:b", "list")
	vers := []string{"cur", "prev", "undef", "next"}
	exps := []string{"run", "td", "any"}
	chgs := []string{"val", "td", "+f", "-f", "none"}
	for _, v := range vers {
		for _, ow := range owners {
			for _, e := range exps {
				for _, c := range chgs {
					if !in.rich && v != "cur" && (c == "+f" || c == "-f" || c == "none") {
						continue // stale-version updates: two change kinds suffice in the reduced alphabet
					}
					out = append(out, op{kind: "update", id: "a", ver: v, owner: ow, exp: e, chg: c}.String())
				}
			}
		}
	}
	return out
}

func (in *inst) Apply(s string) string {
	if s == "armfail" {
		*in.arm = true
		in.armed = true
		return ""
	}
	o := parseOp(s)
	before := snapshot(in.ctx, in.st)
	ver := resolveVersion(in.m, o)
	var obj *conformance.IntResource
	if o.kind == "update" {
		obj = buildUpdate(in.ctx, in.st, in.m, o, ver)
	}
	rs := reasons(in.m, o, ver)
	cls, obs, err, written := exec(in.ctx, in.st, o, obj)
	if err != nil {
		if msg := predicates(err); msg != "" {
			return msg
		}
	}
	storeFails := in.armed && len(rs) == 0 && (o.kind == "create" || o.kind == "update" || o.kind == "destroy")
	if storeFails {
		// every precondition holds, the backing store rejects the write: the call fails with that error
		// and is a failed call like any other (nothing changes, also not in memory)
		in.armed = false
		if err == nil {
			return fmt.Sprintf("the backing store rejected the write but %s reported success (state {%s})", s, in.m.canon())
		}
		if !errors.Is(err, errStore) {
			return fmt.Sprintf("the backing store rejected the write but %s failed with %v", s, err)
		}
	} else if len(rs) == 0 {
		if err != nil {
			return fmt.Sprintf("must succeed in state {%s} but failed: %v", in.m.canon(), err)
		}
		applyModel(in.m, o)
	} else {
		if err == nil {
			return fmt.Sprintf("must fail (%v) in state {%s} but succeeded", rs, in.m.canon())
		}
		ok := false
		for _, r := range rs {
			if r == cls {
				ok = true
			}
		}
		if !ok {
			return fmt.Sprintf("failed with class %q (%v) but the applicable reasons are %v", cls, err, rs)
		}
	}
	after := snapshot(in.ctx, in.st)
	if rs, ok := in.st.(*recState); ok {
		if msg := rs.storeAgrees(in.ctx); msg != "" {
			return "after " + s + ": " + msg
		}
	}
	// implementation state == model state
	for id, mr := range in.m {
		if after[id].snap != mr.snap(id) {
			return fmt.Sprintf("store has %q, model has %q", after[id].snap, mr.snap(id))
		}
	}
	if len(after) != len(in.m) {
		return fmt.Sprintf("store contents %v differ from model {%s}", after, in.m.canon())
	}
	if err != nil {
		// failed call: nothing may change, timestamps included
		for id, b := range before {
			if a := after[id]; a.snap != b.snap || !a.created.Equal(b.created) || !a.updated.Equal(b.updated) {
				return fmt.Sprintf("failed call changed %s: %v -> %v", id, b, a)
			}
		}
	} else {
		switch o.kind {
		case "update":
			if a, b := after[o.id], before[o.id]; !a.created.Equal(b.created) {
				return fmt.Sprintf("update changed the creation time %v -> %v", b.created, a.created)
			}
			if written.Metadata().Version().Value() != uint64(in.m[o.id].version) {
				return fmt.Sprintf("update did not write the new version back into the caller's object: %s", written.Metadata().Version())
			}
		case "create":
			if written.Metadata().Version().Value() != 1 || written.Metadata().Owner() != o.owner {
				return fmt.Sprintf("create did not write version/owner back into the caller's object: %s", hx.Snap(written))
			}
		case "get":
			if obs != in.m[o.id].snap(o.id) {
				return fmt.Sprintf("get returned %q, model %q", obs, in.m[o.id].snap(o.id))
			}
		case "list":
			var want []string
			for _, id := range []string{"a", "b"} {
				if mr, ok := in.m[id]; ok {
					want = append(want, mr.snap(id))
				}
			}
			if obs != strings.Join(want, "; ") {
				return fmt.Sprintf("list returned %q, model %q", obs, strings.Join(want, "; "))
			}
		}
	}
	return ""
}

func seqScenario(f flavour, depth int, rich bool) explore.Scenario {
	return explore.Scenario{
		Name:       fmt.Sprintf("seq/%s/depth%d", f.name, depth),
		Desc:       fmt.Sprintf("BFS over all operation sequences up to depth %d (alphabet: create/update/destroy/get/list with owners, stale versions, expected phases, finalizer/phase/value changes) on %s vs the reference model", depth, f.name),
		Sequential: true,
		Body: func(x *explore.X) {
			res := seqx.BFS(func() seqx.Inst {
				if f.faulty {
					st, arm := newFaulty()
					return &inst{ctx: context.Background(), st: st, close: func() {}, m: model{}, rich: rich, arm: arm}
				}
				st, cl := f.new()
				return &inst{ctx: context.Background(), st: st, close: cl, m: model{}, rich: rich}
			}, depth, 16, 3)
			x.Add("states", res.States)
			x.Add("transitions", res.Transitions)
			x.Add("evaluations", res.Transitions)
			x.Add("distinct_nontrivial", res.States)
			x.Add("traces_validated_against_impl", res.Transitions)
			for _, h := range res.SampleHist {
				x.Sample(map[string]any{"flavour": f.name, "history": h})
			}
			x.Outcome("states=%d transitions=%d depth=%d", res.States, res.Transitions, res.Depth)
			for _, v := range res.Violations {
				key := "seq/" + f.name
				if strings.Contains(v.Msg, "error predicate panicked") {
					key = "seq/predicate-panic"
				}
				x.FailKey(key, "%s", v.String())
			}
		},
	}
}

// ---------------------------------------------------------------- C01b: concurrent histories + porcupine

type hin struct {
	o    op
	ver  int
	prep mres // update: the content of the object the client submits (built from the initial state)
	has  bool
}

type hout struct {
	cls string
	obs string
}

var pmodel = porcupine.Model{
	Init: func() any { return "" },
	Step: func(st, in, out any) (bool, any) {
		m := decode(st.(string))
		i, o := in.(hin), out.(hout)
		rs := reasons(m, i.o, i.ver)
		if len(rs) == 0 {
			if o.cls != "ok" {
				return false, st
			}
			switch i.o.kind {
			case "get":
				return o.obs == m[i.o.id].snap(i.o.id), st
			case "list":
				return o.obs == strings.TrimSuffix(m.canon(), "; "), st
			}
			if i.o.kind == "update" && i.has {
				// Update stores the whole submitted object with the next version
				n := i.prep
				n.version = m[i.o.id].version + 1
				m[i.o.id] = n
				return true, encode(m)
			}
			applyModel(m, i.o)
			return true, encode(m)
		}
		for _, r := range rs {
			if r == o.cls {
				return true, st
			}
		}
		return false, st
	},
	DescribeOperation: func(in, out any) string { return fmt.Sprintf("%v -> %v", in.(hin).o, out.(hout)) },
}

func encode(m model) string {
	var b strings.Builder
	ids := make([]string, 0, len(m))
	for k := range m {
		ids = append(ids, k)
	}
	sort.Strings(ids)
	for _, id := range ids {
		r := m[id]
		fmt.Fprintf(&b, "%s,%d,%s,%v,%v,%d|", id, r.version, r.owner, r.td, r.fin, r.val)
	}
	return b.String()
}

func decode(s string) model {
	m := model{}
	for _, p := range strings.Split(s, "|") {
		if p == "" {
			continue
		}
		f := strings.Split(p, ",")
		v, _ := strconv.Atoi(f[1])
		val, _ := strconv.Atoi(f[5])
		m[f[0]] = mres{version: v, owner: f[2], td: f[3] == "true", fin: f[4] == "true", val: val}
	}
	return m
}

var initials = []struct {
	name string
	m    model
}{
	{"absent", model{}},
	{"running", model{"a": {version: 1, owner: "o1", val: 1}}},
	{"running+f", model{"a": {version: 1, owner: "o1", val: 1, fin: true}}},
	{"tearingdown", model{"a": {version: 1, owner: "o1", val: 1, td: true}}},
}

func concOps() []op {
	return []op{
		{kind: "create", id: "a", owner: "o1"},
		{kind: "create", id: "a", owner: ""},
		{kind: "update", id: "a", ver: "cur", owner: "o1", exp: "run", chg: "val"},
		{kind: "update", id: "a", ver: "cur", owner: "o1", exp: "any", chg: "td"},
		{kind: "update", id: "a", ver: "cur", owner: "o1", exp: "any", chg: "+f"},
		{kind: "update", id: "a", ver: "cur", owner: "o1", exp: "any", chg: "-f"},
		{kind: "update", id: "a", ver: "cur", owner: "o1", exp: "td", chg: "val"},
		{kind: "update", id: "a", ver: "next", owner: "o1", exp: "any", chg: "val"},
		{kind: "update", id: "a", ver: "cur", owner: "o2", exp: "any", chg: "val"},
		{kind: "destroy", id: "a", owner: "o1"},
		{kind: "destroy", id: "a", owner: "o2"},
		{kind: "get", id: "a"},
		{kind: "list"},
	}
}

func concScenario(ops []op, ini int, nsFlavour bool, bounds []int) explore.Scenario {
	names := make([]string, len(ops))
	for i, o := range ops {
		names[i] = o.String()
	}
	fl := "inmem"
	if nsFlavour {
		fl = "namespaced"
	}
	return explore.Scenario{
		Name:   fmt.Sprintf("conc/%s/%s/%s", fl, initials[ini].name, strings.Join(names, " || ")),
		Desc:   fmt.Sprintf("%d concurrent clients, one operation each, initial state %s, store %s; history checked for linearizability (porcupine) against the sequential spec", len(ops), initials[ini].name, fl),
		Bounds: bounds,
		Body: func(x *explore.X) {
			ctx := context.Background()
			var st state.CoreState
			// (always with a backing store attached: the store calls sit inside the operations' critical
			// sections, and a change that opens a window around them shows only when there is a store)
			if nsFlavour {
				st = hx.NewNamespaced(&hx.Log{})
			} else {
				st = hx.NewInmem(&hx.Log{})
			}
			m0 := initials[ini].m.clone()
			if r, ok := m0["a"]; ok {
				res := conformance.NewIntResource(hx.NS, "a", 1)
				if r.fin {
					res.Metadata().Finalizers().Add("f")
				}
				if r.td {
					res.Metadata().SetPhase(resource.PhaseTearingDown)
				}
				if err := st.Create(ctx, res, state.WithCreateOwner(r.owner)); err != nil {
					panic(err)
				}
			}
			clock := int64(0)
			hist := make([]porcupine.Operation, len(ops))
			done := make([]bool, len(ops))
			for i, o := range ops {
				ver := resolveVersion(m0, o)
				var obj *conformance.IntResource
				var prep mres
				has := false
				if o.kind == "update" {
					obj = buildUpdate(ctx, st, m0, o, ver)
					prep, has = mres{owner: obj.Metadata().Owner(), td: obj.Metadata().Phase() == resource.PhaseTearingDown, fin: obj.Metadata().Finalizers().Has("f"), val: obj.Value()}, true
				}
				vrt.GoNamed(fmt.Sprintf("client%d", i), func() {
					clock++
					call := clock
					cls, obs, err, _ := exec(ctx, st, o, obj)
					if err != nil {
						if msg := predicates(err); msg != "" {
							x.FailKey("seq/predicate-panic", "%s", msg)
						}
					}
					clock++
					hist[i] = porcupine.Operation{ClientId: i, Input: hin{o, ver, prep, has}, Call: call, Output: hout{cls, obs}, Return: clock}
					done[i] = true
				})
			}
			vrt.WaitQuiescent()
			for i := range done {
				if !done[i] {
					x.Failf("client %d did not return", i)
					return
				}
			}
			pm := pmodel
			pm.Init = func() any { return encode(m0) }
			if res := porcupine.CheckOperations(pm, hist); !res {
				var d []string
				for _, h := range hist {
					d = append(d, fmt.Sprintf("[%d..%d] %s", h.Call, h.Return, pm.DescribeOperation(h.Input, h.Output)))
				}
				x.Failf("history is not linearizable w.r.t. the sequential spec (initial {%s}): %s", m0.canon(), strings.Join(d, " ; "))
			}
			var oc []string
			for _, h := range hist {
				oc = append(oc, h.Output.(hout).cls)
			}
			x.Outcome("%s", strings.Join(oc, ","))
		},
	}
}

func build(tier string) []explore.Scenario {
	var out []explore.Scenario
	depth := 5
	if tier == "thorough" {
		depth = 6
	}
	for _, f := range flavours() {
		d := depth
		if f.name == "inmem+bbolt" {
			d--
		}
		out = append(out, seqScenario(f, d, tier == "thorough"))
	}
	ops := concOps()
	for i := range ops {
		for j := i; j < len(ops); j++ {
			for ini := range initials {
				out = append(out, concScenario([]op{ops[i], ops[j]}, ini, false, []int{0, 1, -1}))
			}
		}
	}
	for i := 0; i < 6; i++ {
		for j := i; j < 10; j++ {
			out = append(out, concScenario([]op{ops[i], ops[j]}, 1, true, []int{0, 1, -1}))
		}
	}
	// the namespace's state is built lazily by the first operation that names it: two first operations race for it
	// (no update here: building its object would read the state and so be the first operation itself)
	first := []int{0, 1, 9, 11, 12}
	for a, i := range first {
		for _, j := range first[a:] {
			out = append(out, concScenario([]op{ops[i], ops[j]}, 0, true, []int{0, 1, -1}))
		}
	}
	out = append(out, concScenario([]op{ops[0], ops[0], ops[11]}, 0, true, []int{0, 1, 2}))
	if tier == "thorough" {
		for i := range ops {
			for j := i; j < len(ops); j++ {
				for k := j; k < len(ops); k++ {
					for _, ini := range []int{0, 1, 2} {
						out = append(out, concScenario([]op{ops[i], ops[j], ops[k]}, ini, false, []int{0, 1, 2}))
					}
				}
			}
		}
	} else {
		for _, t := range [][3]int{{0, 2, 9}, {2, 2, 11}, {2, 3, 12}, {4, 5, 9}, {0, 9, 9}} {
			out = append(out, concScenario([]op{ops[t[0]], ops[t[1]], ops[t[2]]}, 1, false, []int{0, 1, 2}))
		}
	}
	return out
}

func main() {
	explore.Main(explore.Config{
		Property:  "C01",
		Technique: "explicit-state BFS over operation sequences against a reference model (every flavour) + stateless model checking of concurrent clients with a porcupine linearizability check of every history",
		Rule:      "sequential part: every operation of the alphabet applied from every reachable abstract state up to the depth; concurrent part: one execution per schedule of 2-3 one-operation clients; non-trivial = distinct abstract states / schedules that differ from the default order",
		Assume: []string{
			"sequential spec as in the property statement; no precedence demanded among simultaneous failure reasons",
			"only two ids, three owners, one finalizer in the alphabet",
		},
	}, build)
}
