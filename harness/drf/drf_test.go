// Package drf is the data-race-freedom side condition of the schedule exploration. The cooperative scheduler
// interleaves goroutines only at synchronisation operations, which is exhaustive for data-race-free code and
// blind to unsynchronised accesses (its hand-offs are happens-before edges). These bodies therefore run the
// same component seams free-running (passthrough mode, real Go scheduler) under `go test -race`: the detector
// reports any pair of conflicting accesses not ordered by synchronisation in the observed run, whether or not
// they overlapped in time. A report voids the exploration's premise and is itself a violation of the
// properties that promise consistent views to concurrent callers, so vcheck turns it into a VIOLATION line.
//
// Every body reads the results it gets back field by field (Reads), because a result that aliases internal
// storage only races once somebody looks at it.
package drf

import (
	"context"
	"fmt"
	"path/filepath"
	"regexp"
	"sync"
	"sync/atomic"
	"testing"
	"time"

	"github.com/ProtonMail/gopenpgp/v2/crypto"
	"github.com/siderolabs/gen/optional"
	"go.uber.org/zap"

	"github.com/cosi-project/runtime/pkg/controller"
	"github.com/cosi-project/runtime/pkg/controller/conformance"
	"github.com/cosi-project/runtime/pkg/controller/runtime"
	"github.com/cosi-project/runtime/pkg/controller/runtime/options"
	"github.com/cosi-project/runtime/pkg/keystorage"
	"github.com/cosi-project/runtime/pkg/resource"
	"github.com/cosi-project/runtime/pkg/state"
	"github.com/cosi-project/runtime/pkg/state/impl/inmem"
	"github.com/cosi-project/runtime/pkg/state/impl/namespaced"
	"github.com/cosi-project/runtime/pkg/state/impl/store"
	"github.com/cosi-project/runtime/pkg/state/impl/store/bolt"
	"github.com/cosi-project/runtime/pkg/state/protobuf/client"
	"github.com/cosi-project/runtime/pkg/state/protobuf/server"
	"go.etcd.io/bbolt"
	"verif.local/harness/hx"
	"verif.local/harness/lb"
	"verif.local/harness/px"
	"verif.local/harness/tx"
)

var sink atomic.Int64

func init() { lb.RegisterConformanceResources() }

var reR = regexp.MustCompile("^r[0-4]$")

func optionalID(id string) optional.Optional[resource.ID] { return optional.Some(resource.ID(id)) }

func optionalUint(n uint) optional.Optional[uint] { return optional.Some(n) }

// reads touches everything a caller may look at in a resource.
func reads(r resource.Resource) {
	if r == nil {
		return
	}
	md := r.Metadata()
	n := len(md.ID()) + len(md.Owner()) + int(md.Phase()) + len(md.Version().String())
	for _, f := range *md.Finalizers() {
		n += len(f)
	}
	for k, v := range md.Labels().Raw() {
		n += len(k) + len(v)
	}
	for k, v := range md.Annotations().Raw() {
		n += len(k) + len(v)
	}
	if !resource.IsTombstone(r) {
		n += len(fmt.Sprint(r.Spec()))
	}
	_ = n
}

func readList(l resource.List, err error) {
	if err != nil {
		return
	}
	for _, r := range l.Items {
		reads(r)
	}
}

func par(fs ...func()) {
	var wg sync.WaitGroup
	start := make(chan struct{})
	for _, f := range fs {
		wg.Add(1)
		go func() {
			defer wg.Done()
			<-start
			f()
		}()
	}
	close(start)
	wg.Wait()
}

func lab(id string, v int, l string) *conformance.IntResource {
	r := conformance.NewIntResource(hx.NS, id, v)
	r.Metadata().Labels().Set("l", l)
	r.Metadata().Labels().Set("id", id)
	return r
}

// TestDRF_State: every store verb and helper against every other on two colliding ids (C01 C04 C19 C20).
func TestDRF_State(t *testing.T) {
	for it := 0; it < 150; it++ {
		ctx := context.Background()
		st := state.WrapCore(namespaced.NewState(inmem.Build))
		st.Create(ctx, lab("a", 1, "x")) //nolint:errcheck
		par(
			func() { st.Create(ctx, lab("b", 1, "y")); st.Destroy(ctx, hx.IntPtr("b")) }, //nolint:errcheck
			func() {
				r, err := st.Get(ctx, hx.IntPtr("a"))
				if err == nil {
					reads(r)
				}
				readList(st.List(ctx, hx.IntKind()))
				readList(st.List(ctx, hx.IntKind(), state.WithLabelQuery(resource.LabelEqual("l", "x"))))
			},
			func() {
				r, err := st.UpdateWithConflicts(ctx, lab("a", 0, "").Metadata(), func(r resource.Resource) error {
					r.Metadata().Labels().Set("l", "z")
					r.(*conformance.IntResource).SetValue(7)
					return nil
				})
				if err == nil {
					reads(r)
				}
			},
			func() {
				st.AddFinalizer(ctx, hx.IntPtr("a"), "f1")    //nolint:errcheck
				st.RemoveFinalizer(ctx, hx.IntPtr("a"), "f1") //nolint:errcheck
			},
			func() {
				st.AddFinalizer(ctx, hx.IntPtr("a"), "f2") //nolint:errcheck
				st.Teardown(ctx, hx.IntPtr("a"))           //nolint:errcheck
				r, err := st.Get(ctx, hx.IntPtr("a"))
				if err == nil {
					reads(r)
				}
				st.RemoveFinalizer(ctx, hx.IntPtr("a"), "f2") //nolint:errcheck
			},
			func() {
				r, err := st.ModifyWithResult(ctx, lab("a", 3, "m"), func(r resource.Resource) error {
					r.Metadata().Annotations().Set("k", "v")
					return nil
				})
				if err == nil {
					reads(r)
				}
			},
		)
	}
}

// TestDRF_Watch: all watch flavours against writers; consumers read what they receive (C02 C03 C12 C19).
func TestDRF_Watch(t *testing.T) {
	for it := 0; it < 60; it++ {
		ctx, cancel := context.WithCancel(context.Background())
		st := state.WrapCore(inmem.NewStateWithOptions(inmem.WithHistoryInitialCapacity(2), inmem.WithHistoryMaxCapacity(4), inmem.WithHistoryGap(1))(hx.NS))
		st.Create(ctx, lab("a", 0, "x")) //nolint:errcheck
		var wg sync.WaitGroup
		consume := func(ch chan state.Event) {
			wg.Add(1)
			go func() {
				defer wg.Done()
				for {
					select {
					case <-ctx.Done():
						return
					case ev := <-ch:
						reads(ev.Resource)
						reads(ev.Old)
					}
				}
			}()
		}
		consumeAgg := func(ch chan []state.Event) {
			wg.Add(1)
			go func() {
				defer wg.Done()
				for {
					select {
					case <-ctx.Done():
						return
					case evs := <-ch:
						for _, ev := range evs {
							reads(ev.Resource)
							reads(ev.Old)
						}
					}
				}
			}()
		}
		par(
			func() {
				ch := make(chan state.Event)
				st.Watch(ctx, hx.IntPtr("a"), ch) //nolint:errcheck
				consume(ch)
			},
			func() {
				ch := make(chan state.Event)
				st.WatchKind(ctx, hx.IntKind(), ch, state.WithBootstrapContents(true)) //nolint:errcheck
				consume(ch)
			},
			func() {
				ch := make(chan state.Event)
				st.WatchKind(ctx, hx.IntKind(), ch, state.WithBootstrapBookmark(true), state.WatchWithLabelQuery(resource.LabelEqual("l", "x"))) //nolint:errcheck
				consume(ch)
			},
			func() {
				ch := make(chan []state.Event)
				st.WatchKindAggregated(ctx, hx.IntKind(), ch, state.WithBootstrapContents(true)) //nolint:errcheck
				consumeAgg(ch)
			},
			func() {
				ch := make(chan state.Event)
				st.WatchKind(ctx, hx.IntKind(), ch, state.WithKindTailEvents(2)) //nolint:errcheck
				consume(ch)
			},
			func() {
				r := lab("a", 0, "x")
				for i := 0; i < 8; i++ {
					st.UpdateWithConflicts(ctx, r.Metadata(), func(x resource.Resource) error { //nolint:errcheck
						x.(*conformance.IntResource).SetValue(i)
						x.Metadata().Labels().Set("l", []string{"x", "y"}[i%2])
						return nil
					})
				}
			},
			func() {
				for i := 0; i < 3; i++ {
					st.Create(ctx, lab("b", i, "x")) //nolint:errcheck
					st.Destroy(ctx, hx.IntPtr("b"))  //nolint:errcheck
				}
			},
		)
		time.Sleep(time.Millisecond)
		cancel()
		wg.Wait()
	}
}

// TestDRF_Cache: cache feed (append/put/remove/bootstrapped) against cached readers with and without
// filters; readers read the results (C15 C19).
func TestDRF_Cache(t *testing.T) {
	for it := 0; it < 150; it++ {
		ctx := context.Background()
		c := runtime.VerifNewCache([]options.CachedResource{{Namespace: hx.NS, Type: conformance.IntResourceType}})
		for i := 0; i < 5; i++ {
			c.CacheAppend(lab(fmt.Sprint("r", i*2), 1, []string{"x", "y"}[i%2]))
		}
		c.MarkBootstrapped(hx.NS, conformance.IntResourceType)
		par(
			func() {
				for i := 0; i < 3; i++ {
					c.CachePut(lab("r1", i, "x")) // new id in the middle: shifts the tail
					c.CacheRemove(lab("r1", i, "x"))
				}
			},
			func() {
				for i := 0; i < 3; i++ {
					c.CachePut(lab("r4", i+2, "x")) // in-place update
				}
			},
			func() {
				for i := 0; i < 3; i++ {
					readList(c.List(ctx, hx.IntKind(), state.WithLabelQuery(resource.LabelEqual("l", "x"))))
				}
			},
			func() {
				for i := 0; i < 3; i++ {
					readList(c.List(ctx, hx.IntKind(), state.WithIDQuery(resource.IDRegexpMatch(reR))))
				}
			},
			func() {
				for i := 0; i < 3; i++ {
					readList(c.List(ctx, hx.IntKind()))
					r, err := c.Get(ctx, hx.IntPtr("r4"))
					if err == nil {
						reads(r)
					}
				}
			},
			func() {
				tctx, err := c.ContextWithTeardown(ctx, hx.IntPtr("r2"))
				if err == nil {
					_ = tctx.Err()
				}
				td := lab("r2", 2, "y")
				td.Metadata().SetPhase(resource.PhaseTearingDown)
				c.CachePut(td)
			},
		)
	}
}

// TestDRF_DepDB: dependency database queries against input changes; query results are walked after the
// call returned, as event delivery does (C17 C08).
func TestDRF_DepDB(t *testing.T) {
	for it := 0; it < 150; it++ {
		db, err := runtime.VerifNewDepDB()
		if err != nil {
			t.Fatal(err)
		}
		in := func(typ string, id string) controller.Input {
			i := controller.Input{Namespace: hx.NS, Type: resource.Type(typ), Kind: controller.InputWeak}
			if id != "" {
				i.ID = optionalID(id)
			}
			return i
		}
		for _, c := range []string{"A", "B", "C"} {
			db.AddControllerInput(c, in("T", "")) //nolint:errcheck
		}
		db.AddControllerInput("D", in("T", "x")) //nolint:errcheck
		walk := func() {
			deps, err := db.GetDependentControllers(in("T", "x"))
			if err == nil {
				for _, d := range deps {
					sink.Add(int64(len(d)))
				}
			}
			ins, err := db.GetControllerInputs("B")
			if err == nil {
				for _, i := range ins {
					sink.Add(int64(len(i.Type)))
				}
			}
			g, err := db.Export()
			if err == nil {
				sink.Add(int64(len(g.Edges)))
			}
		}
		par(
			walk, walk,
			func() { db.DeleteControllerInput("A", in("T", "")); db.AddControllerInput("A", in("T", "")) },         //nolint:errcheck
			func() { db.DeleteControllerInput("D", in("T", "x")); db.AddControllerInput("D", in("T", "y")) },       //nolint:errcheck
			func() { db.AddControllerInput("B", in("U", "")); db.DeleteControllerInput("B", in("U", "")) },         //nolint:errcheck
			func() { db.AddControllerOutput("E", controller.Output{Type: "O", Kind: controller.OutputExclusive}) }, //nolint:errcheck
		)
	}
}

// TestDRF_Queue: the reconcile queue with several workers mixing Release and Requeue against a notifier
// (C09).
func TestDRF_Queue(t *testing.T) {
	for it := 0; it < 40; it++ {
		ctx, cancel := context.WithCancel(context.Background())
		q := runtime.VerifNewQueue[string, int]()
		var wg sync.WaitGroup
		wg.Add(1)
		go func() { defer wg.Done(); q.Run(ctx) }()
		for w := 0; w < 3; w++ {
			wg.Add(1)
			go func() {
				defer wg.Done()
				n := 0
				for {
					select {
					case <-ctx.Done():
						return
					case item := <-q.Get():
						_, v := item.Get()
						sink.Add(int64(v))
						n++
						if n%2 == w%2 {
							item.Requeue(time.Now())
						}
						item.Release()
					}
				}
			}()
		}
		for i := 0; i < 20; i++ {
			q.Put([]string{"k1", "k2"}[i%2], i)
			sink.Add(int64(int(q.Len())))
		}
		time.Sleep(time.Millisecond)
		cancel()
		wg.Wait()
	}
}

// TestDRF_Runtime: a started runtime with plain and queue probes over a cached kind, writers, dynamic input
// updates and late registrations (C05 C08 C15 C16 C17).
func TestDRF_Runtime(t *testing.T) {
	for it := 0; it < 12; it++ {
		ctx, cancel := context.WithCancel(context.Background())
		st := state.WrapCore(namespaced.NewState(inmem.Build))
		rt, err := runtime.NewRuntime(st, zap.NewNop(), options.WithMetrics(false), options.WithCachedResource(hx.NS, conformance.IntResourceType))
		if err != nil {
			t.Fatal(err)
		}
		intIn := controller.Input{Namespace: hx.NS, Type: conformance.IntResourceType, Kind: controller.InputWeak}
		strIn := controller.Input{Namespace: hx.NS, Type: conformance.StrResourceType, Kind: controller.InputWeak}
		mk := func(name string) *px.Probe {
			p := &px.Probe{NameV: name, InputsV: []controller.Input{intIn}}
			n := 0
			p.OnEvent = func(ctx context.Context, r controller.Runtime, _ int) error {
				readList(r.List(ctx, hx.IntKind()))
				readList(r.List(ctx, hx.IntKind(), state.WithLabelQuery(resource.LabelEqual("l", "x"))))
				n++
				if n%2 == 0 {
					r.UpdateInputs([]controller.Input{intIn, strIn}) //nolint:errcheck
				} else {
					r.UpdateInputs([]controller.Input{intIn}) //nolint:errcheck
				}
				return nil
			}
			return p
		}
		for i := 0; i < 2; i++ {
			if err := rt.RegisterController(mk(fmt.Sprint("c", i))); err != nil {
				t.Fatal(err)
			}
		}
		qp := &px.QProbe{NameV: "q", SettingsV: controller.QSettings{Inputs: []controller.Input{{Namespace: hx.NS, Type: conformance.IntResourceType, Kind: controller.InputQPrimary}}, Concurrency: optionalUint(2)}}
		qp.OnReconcile = func(ctx context.Context, r controller.QRuntime, p resource.Pointer) error {
			x, err := r.Get(ctx, p)
			if err == nil {
				reads(x)
			}
			return nil
		}
		if err := rt.RegisterQController(qp); err != nil {
			t.Fatal(err)
		}
		done := make(chan struct{})
		go func() { rt.Run(ctx); close(done) }() //nolint:errcheck
		par(
			func() {
				r := lab("a", 0, "x")
				st.Create(ctx, r) //nolint:errcheck
				for i := 0; i < 10; i++ {
					st.UpdateWithConflicts(ctx, r.Metadata(), func(x resource.Resource) error { //nolint:errcheck
						x.(*conformance.IntResource).SetValue(i)
						return nil
					})
				}
			},
			func() {
				for i := 0; i < 4; i++ {
					st.Create(ctx, lab("b", i, "x")) //nolint:errcheck
					st.Destroy(ctx, hx.IntPtr("b"))  //nolint:errcheck
				}
			},
			func() {
				rt.RegisterController(mk("late"))                                                                                                                                       //nolint:errcheck
				rt.RegisterController(&px.Probe{NameV: "bad", InputsV: []controller.Input{intIn, {Namespace: hx.NS, Type: conformance.IntResourceType, Kind: controller.InputStrong}}}) //nolint:errcheck
			},
			func() {
				for i := 0; i < 3; i++ {
					g, err := rt.GetDependencyGraph()
					if err == nil {
						sink.Add(int64(len(g.Edges)))
					}
				}
			},
		)
		time.Sleep(10 * time.Millisecond)
		cancel()
		<-done
	}
}

// TestDRF_Transform: the generic controllers driving finalizer lifecycles against an external actor that
// creates, updates, tears down and destroys inputs and pins outputs (C06 C07).
func TestDRF_Transform(t *testing.T) {
	for _, fl := range []string{"transform", "transform-fin", "qtransform", "qtransform-while", "cleanup"} {
		for it := 0; it < 4; it++ {
			ctx, cancel := context.WithCancel(context.Background())
			st := state.WrapCore(namespaced.NewState(inmem.Build))
			rt, err := runtime.NewRuntime(st, zap.NewNop(), options.WithMetrics(false))
			if err != nil {
				t.Fatal(err)
			}
			if err := tx.RegisterFlavour(rt, fl); err != nil {
				t.Fatal(err)
			}
			done := make(chan struct{})
			go func() { rt.Run(ctx); close(done) }() //nolint:errcheck
			actor := func(id string) func() {
				return func() {
					st.Create(ctx, tx.NewA(id, 1))                                             //nolint:errcheck
					st.UpdateWithConflicts(ctx, tx.APtr(id), func(r resource.Resource) error { //nolint:errcheck
						r.(*tx.A).TypedSpec().Int++
						return nil
					})
					time.Sleep(time.Millisecond)
					st.AddFinalizer(ctx, tx.BPtr(id), "third") //nolint:errcheck
					tctx, tcancel := context.WithTimeout(ctx, 20*time.Millisecond)
					st.TeardownAndDestroy(tctx, tx.APtr(id)) //nolint:errcheck
					tcancel()
					st.RemoveFinalizer(ctx, tx.BPtr(id), "third") //nolint:errcheck
					tctx, tcancel = context.WithTimeout(ctx, 50*time.Millisecond)
					st.TeardownAndDestroy(tctx, tx.APtr(id)) //nolint:errcheck
					tcancel()
					st.Create(ctx, tx.NewA(id, 5)) //nolint:errcheck
				}
			}
			par(actor("a"), actor("b"), func() {
				for i := 0; i < 5; i++ {
					readList(st.List(ctx, tx.NewB("x").Metadata()))
					readList(st.List(ctx, tx.NewA("x", 0).Metadata()))
					time.Sleep(time.Millisecond)
				}
			})
			time.Sleep(5 * time.Millisecond)
			cancel()
			<-done
		}
	}
}

// TestDRF_Bolt: a bbolt-backed state whose first use is concurrent, with writers and readers (C10 C01).
func TestDRF_Bolt(t *testing.T) {
	for it := 0; it < 6; it++ {
		ctx := context.Background()
		path := filepath.Join(t.TempDir(), "db")
		open := func() (*inmem.State, *bolt.BackingStore) {
			bs, err := bolt.NewBackingStore(func() (*bbolt.DB, error) { return bbolt.Open(path, 0o600, nil) }, store.ProtobufMarshaler{})
			if err != nil {
				t.Fatal(err)
			}
			return inmem.NewStateWithOptions(inmem.WithBackingStore(bs.WithNamespace(hx.NS)))(hx.NS), bs
		}
		core, bs := open()
		st := state.WrapCore(core)
		st.Create(ctx, lab("a", 1, "x")) //nolint:errcheck
		st.Create(ctx, lab("b", 1, "y")) //nolint:errcheck
		bs.Close()                       //nolint:errcheck
		core, bs = open()
		st = state.WrapCore(core)
		par(
			func() {
				r, err := st.Get(ctx, hx.IntPtr("a"))
				if err == nil {
					reads(r)
				}
			},
			func() { readList(st.List(ctx, hx.IntKind())) },
			func() {
				st.UpdateWithConflicts(ctx, lab("a", 0, "").Metadata(), func(r resource.Resource) error { //nolint:errcheck
					r.(*conformance.IntResource).SetValue(9)
					return nil
				})
			},
			func() { st.Destroy(ctx, hx.IntPtr("b")) },  //nolint:errcheck
			func() { st.Create(ctx, lab("c", 1, "x")) }, //nolint:errcheck
		)
		bs.Close() //nolint:errcheck
	}
}

// TestDRF_Wire: the gRPC client adapter and server over the in-process loopback, with remote watches that
// are consumed while writers commit on both sides (C11 C13 C14).
func TestDRF_Wire(t *testing.T) {
	for it := 0; it < 25; it++ {
		ctx, cancel := context.WithCancel(context.Background())
		backend := state.WrapCore(namespaced.NewState(inmem.Build))
		remote := state.WrapCore(client.NewAdapter(lb.New(server.NewState(backend))))
		backend.Create(ctx, lab("a", 0, "x")) //nolint:errcheck
		var wg sync.WaitGroup
		consume := func(ch chan state.Event) {
			wg.Add(1)
			go func() {
				defer wg.Done()
				for {
					select {
					case <-ctx.Done():
						return
					case ev := <-ch:
						reads(ev.Resource)
						reads(ev.Old)
					}
				}
			}()
		}
		ch1, ch2, ch3 := make(chan state.Event), make(chan state.Event), make(chan []state.Event)
		remote.Watch(ctx, hx.IntPtr("a"), ch1)                                                                             //nolint:errcheck
		remote.WatchKind(ctx, hx.IntKind(), ch2, state.WithBootstrapContents(true))                                        //nolint:errcheck
		remote.WatchKindAggregated(ctx, hx.IntKind(), ch3, state.WithBootstrapBookmark(true), state.WithKindTailEvents(1)) //nolint:errcheck
		consume(ch1)
		consume(ch2)
		wg.Add(1)
		go func() {
			defer wg.Done()
			for {
				select {
				case <-ctx.Done():
					return
				case evs := <-ch3:
					for _, ev := range evs {
						reads(ev.Resource)
					}
				}
			}
		}()
		par(
			func() {
				for i := 0; i < 5; i++ {
					remote.UpdateWithConflicts(ctx, lab("a", 0, "").Metadata(), func(r resource.Resource) error { //nolint:errcheck
						r.(*conformance.IntResource).SetValue(i)
						return nil
					})
				}
			},
			func() {
				for i := 0; i < 3; i++ {
					backend.Create(ctx, lab("b", i, "y")) //nolint:errcheck
					remote.Destroy(ctx, hx.IntPtr("b"))   //nolint:errcheck
				}
			},
			func() {
				for i := 0; i < 3; i++ {
					readList(remote.List(ctx, hx.IntKind(), state.WithLabelQuery(resource.LabelExists("l"))))
					r, err := remote.Get(ctx, hx.IntPtr("a"))
					if err == nil {
						reads(r)
					}
				}
			},
		)
		time.Sleep(2 * time.Millisecond)
		cancel()
		wg.Wait()
	}
}

// TestDRF_KeyStorage: one key storage, concurrent initialisation, slot changes, retrievals and serialisation
// (C20).
func TestDRF_KeyStorage(t *testing.T) {
	type pair struct{ pub, priv string }
	var keys [2]pair
	for i := range keys {
		k, err := crypto.GenerateKey(fmt.Sprint("k", i), fmt.Sprintf("k%d@example.org", i), "x25519", 0)
		if err != nil {
			t.Fatal(err)
		}
		keys[i].priv, _ = k.Armor()
		keys[i].pub, _ = k.GetArmoredPublicKey()
	}
	master := []byte("this key len is exactly 32 bytes")
	for it := 0; it < 6; it++ {
		ks := &keystorage.KeyStorage{}
		par(
			func() { ks.Initialize(master, "s0", keys[0].pub) },             //nolint:errcheck
			func() { ks.Initialize(master, "s1", keys[1].pub) },             //nolint:errcheck
			func() { ks.AddKeySlot("s1", keys[1].pub, "s0", keys[0].priv) }, //nolint:errcheck
			func() { ks.GetMasterKey("s0", keys[0].priv) },                  //nolint:errcheck
			func() { ks.MarshalBinary() },                                   //nolint:errcheck
			func() { ks.DeleteKeySlot("s0", keys[0].priv) },                 //nolint:errcheck
		)
	}
}
