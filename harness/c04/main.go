// Harness C04: read-modify-write helpers are atomic under contention.
//
// N callers run one helper each on the same resource; every schedule (up to the preemption bound) is
// explored.  Oracle (on the commit log): every commit is exactly "previous state + the mutation of the
// call that issued it" under the owner/phase conditions of that call; a call that reports success has
// at most one commit and its post-condition holds; a call that reports an error has no commit and its
// error class is justified by a state that existed during the call.
package main

import (
	"context"
	"errors"
	"fmt"
	"slices"
	"strings"

	"github.com/cosi-project/runtime/pkg/controller/conformance"
	"github.com/cosi-project/runtime/pkg/resource"
	"github.com/cosi-project/runtime/pkg/safe"
	"github.com/cosi-project/runtime/pkg/state"
	"github.com/cosi-project/runtime/pkg/state/owned"
	"verif.local/explore"
	"verif.local/harness/hx"
	"verif.local/vrt"
)

const (
	ownerOK  = "o1"
	ownerBad = "o2"
	finInit  = "F"
)

type opKind int

const (
	opUWC opKind = iota
	opUWCForeign
	opUWCAnyPhase
	opUWCNoop
	opUWCFail
	opModify
	opAddFin
	opRmFin
	opTeardown
	opDestroy
	opOwnedModify
	opOwnedTeardown
	opSafeModify
	opUWCTD      // expected phase tearing down
	opUWCSame    // idempotent mutator: every caller sets the same label
	opModifySame // ModifyWithResult with the same idempotent mutator
	nOps
)

var opNames = [...]string{"uwc", "uwc-foreign", "uwc-anyphase", "uwc-noop", "uwc-fail", "modify", "addfin", "rmfin", "teardown", "destroy", "owned-modify", "owned-teardown", "safe-modify", "uwc-expectTD", "uwc-sametag", "modify-sametag"}

var errMutator = errors.New("mutator failed")

type call struct {
	kind opKind
	idx  int
	// results
	g        int
	started  bool
	done     bool
	err      error
	ret      resource.Resource
	ready    bool
	logStart int
	logEnd   int
}

func (c *call) tag() string {
	if c.kind == opUWCSame || c.kind == opModifySame {
		return "same"
	}
	return fmt.Sprintf("t%d", c.idx)
}
func (c *call) fin() string { return fmt.Sprintf("f%d", c.idx) }

func ptr() resource.Pointer { return hx.IntPtr("r") }

func (c *call) run(ctx context.Context, st state.State) {
	addTag := func(r resource.Resource) error {
		r.Metadata().Labels().Set(c.tag(), "1")
		if c.tag() != "same" {
			// not idempotent on purpose: a mutation applied twice (a retry on an object that was already
			// mutated) shows in the value
			r.(*conformance.IntResource).SetValue(r.(*conformance.IntResource).Value() + 1)
		}
		return nil
	}
	switch c.kind {
	case opUWC:
		c.ret, c.err = st.UpdateWithConflicts(ctx, ptr(), addTag, state.WithUpdateOwner(ownerOK))
	case opUWCSame:
		c.ret, c.err = st.UpdateWithConflicts(ctx, ptr(), addTag, state.WithUpdateOwner(ownerOK))
	case opModifySame:
		c.ret, c.err = st.ModifyWithResult(ctx, conformance.NewIntResource(hx.NS, "r", 7), addTag, state.WithUpdateOwner(ownerOK))
	case opUWCForeign:
		c.ret, c.err = st.UpdateWithConflicts(ctx, ptr(), addTag, state.WithUpdateOwner(ownerBad))
	case opUWCAnyPhase:
		// (through the typed wrapper of pkg/safe: same contract)
		var typed *conformance.IntResource
		typed, c.err = safe.StateUpdateWithConflicts(ctx, st, ptr(), func(r *conformance.IntResource) error { return addTag(r) }, state.WithUpdateOwner(ownerOK), state.WithExpectedPhaseAny())
		if typed != nil {
			c.ret = typed
		}
	case opUWCTD:
		c.ret, c.err = st.UpdateWithConflicts(ctx, ptr(), addTag, state.WithUpdateOwner(ownerOK), state.WithExpectedPhase(resource.PhaseTearingDown))
	case opUWCNoop:
		c.ret, c.err = st.UpdateWithConflicts(ctx, ptr(), func(resource.Resource) error { return nil }, state.WithUpdateOwner(ownerOK))
	case opUWCFail:
		c.ret, c.err = st.UpdateWithConflicts(ctx, ptr(), func(r resource.Resource) error {
			r.Metadata().Labels().Set(c.tag(), "1") // must leave no trace
			return errMutator
		}, state.WithUpdateOwner(ownerOK))
	case opModify:
		c.ret, c.err = st.ModifyWithResult(ctx, conformance.NewIntResource(hx.NS, "r", 7), addTag, state.WithUpdateOwner(ownerOK))
	case opSafeModify:
		c.ret, c.err = safe.StateModifyWithResult(ctx, st, conformance.NewIntResource(hx.NS, "r", 7), func(r *conformance.IntResource) error { return addTag(r) }, state.WithUpdateOwner(ownerOK))
	case opOwnedModify:
		c.ret, c.err = owned.New(st, ownerOK).ModifyWithResult(ctx, conformance.NewIntResource(hx.NS, "r", 7), addTag)
	case opAddFin:
		c.err = st.AddFinalizer(ctx, ptr(), c.fin())
	case opRmFin:
		c.err = st.RemoveFinalizer(ctx, ptr(), finInit)
	case opTeardown:
		c.ready, c.err = st.Teardown(ctx, ptr(), state.WithTeardownOwner(ownerOK))
	case opOwnedTeardown:
		c.ready, c.err = owned.New(st, ownerOK).Teardown(ctx, ptr())
	case opDestroy:
		c.err = st.Destroy(ctx, ptr(), state.WithDestroyOwner(ownerOK))
	}
}

func (c *call) isModify() bool {
	return c.kind == opModify || c.kind == opSafeModify || c.kind == opOwnedModify || c.kind == opModifySame
}
func (c *call) isTeardown() bool { return c.kind == opTeardown || c.kind == opOwnedTeardown }

// addsTag reports whether a successful call must have its tag in the store.
func (c *call) addsTag() bool {
	switch c.kind {
	case opUWC, opUWCAnyPhase, opUWCTD, opModify, opSafeModify, opOwnedModify, opUWCSame, opModifySame:
		return true
	}
	return false
}

// phaseOK reports whether the call may commit on top of a state with phase p.
func (c *call) phaseOK(p resource.Phase) bool {
	switch c.kind {
	case opUWC, opUWCForeign, opUWCNoop, opUWCFail, opModify, opSafeModify, opOwnedModify, opTeardown, opOwnedTeardown, opUWCSame, opModifySame:
		return p == resource.PhaseRunning
	case opUWCTD:
		return p == resource.PhaseTearingDown
	}
	return true // any phase: uwc-anyphase, finalizer helpers
}

func labelsOf(r resource.Resource) []string {
	keys := r.Metadata().Labels().Keys()
	slices.Sort(keys)
	return keys
}

func finsOf(r resource.Resource) []string {
	var out []string
	for _, f := range *r.Metadata().Finalizers() {
		out = append(out, string(f))
	}
	slices.Sort(out)
	return out
}

func with(s []string, add string) []string {
	if add == "" || slices.Contains(s, add) {
		return s
	}
	o := append(slices.Clone(s), add)
	slices.Sort(o)
	return o
}

func without(s []string, rm string) []string {
	var o []string
	for _, x := range s {
		if x != rm {
			o = append(o, x)
		}
	}
	return o
}

type initial int

const (
	initAbsent initial = iota
	initRunning
	initTearingDown
	initRunningNoFin
	// three finalizers added one by one: the stored finalizer list has spare capacity (len 3, cap 4), so an
	// in-place append by one holder of a copy would show in every other copy (seed c04i)
	initRunning3Fin
)

var initNames = [...]string{"absent", "running+F", "tearingdown+F", "running", "running+F+G+H"}

func scenario(kinds []opKind, init initial, namespacedFlavour bool, bounds []int) explore.Scenario {
	names := make([]string, len(kinds))
	for i, k := range kinds {
		names[i] = opNames[k]
	}
	fl := "inmem"
	if namespacedFlavour {
		fl = "namespaced"
	}
	name := fmt.Sprintf("%s/%s/%s", fl, initNames[init], strings.Join(names, "+"))
	return explore.Scenario{
		Name:   name,
		Desc:   fmt.Sprintf("%d concurrent callers (%s) on one resource, initial state %s, store %s", len(kinds), strings.Join(names, ", "), initNames[init], fl),
		Bounds: bounds,
		HB:     true,
		Body: func(x *explore.X) {
			ctx := context.Background()
			log := &hx.Log{}
			var core state.CoreState
			if namespacedFlavour {
				core = hx.NewNamespaced(log)
			} else {
				core = hx.NewInmem(log)
			}
			st := state.WrapCore(core)
			if init != initAbsent {
				r := conformance.NewIntResource(hx.NS, "r", 7)
				if init != initRunningNoFin {
					r.Metadata().Finalizers().Add(finInit)
				}
				if init == initRunning3Fin {
					r.Metadata().Finalizers().Add("G")
					r.Metadata().Finalizers().Add("H")
				}
				if init == initTearingDown {
					r.Metadata().SetPhase(resource.PhaseTearingDown)
				}
				if err := st.Create(ctx, r, state.WithCreateOwner(ownerOK)); err != nil {
					panic(err)
				}
			}
			base := log.Len()
			calls := make([]*call, len(kinds))
			for i, k := range kinds {
				c := &call{kind: k, idx: i}
				calls[i] = c
				vrt.GoNamed(fmt.Sprintf("caller%d:%s", i, opNames[k]), func() {
					c.g = vrt.CurID()
					c.started = true
					c.logStart = log.Len()
					c.run(ctx, st)
					c.logEnd = log.Len()
					c.done = true
				})
			}
			vrt.WaitQuiescent()
			check(x, st, log, base, calls)
		},
	}
}

func check(x *explore.X, st state.State, log *hx.Log, base int, calls []*call) {
	byG := map[int]*call{}
	for _, c := range calls {
		if !c.done {
			x.Failf("caller %d (%s) did not return", c.idx, opNames[c.kind])
			return
		}
		byG[c.g] = c
	}
	commits := map[*call][]hx.Commit{}
	typ := conformance.IntResourceType
	// every commit is previous state + the mutation of its call
	for i := base; i < log.Len(); i++ {
		e := log.Entries[i]
		c := byG[e.G]
		if c == nil {
			x.Failf("commit %v by unknown goroutine g%d", e, e.G)
			return
		}
		commits[c] = append(commits[c], e)
		prev := log.Before(i, typ, "r")
		who := fmt.Sprintf("caller %d (%s)", c.idx, opNames[c.kind])
		switch {
		case e.Destroy:
			if c.kind != opDestroy {
				x.Failf("%s destroyed the resource", who)
			} else if prev == nil || len(finsOf(prev)) > 0 || prev.Metadata().Owner() != ownerOK {
				x.Failf("destroy committed on top of %s", hx.Snap(prev))
			}
		case prev == nil:
			if !c.isModify() {
				x.Failf("%s created the resource: %v", who, e)
			} else {
				wantVal := 8
				if c.tag() == "same" {
					wantVal = 7
				}
				want := fmt.Sprintf("test/int/r@1 owner=%s labels={%s=1,} val=%d", ownerOK, c.tag(), wantVal)
				if hx.Snap(e.Res) != want {
					x.Failf("%s created %s, want %s", who, hx.Snap(e.Res), want)
				}
			}
		default:
			pm, nm := prev.Metadata(), e.Res.Metadata()
			if nm.Version().Value() != pm.Version().Value()+1 {
				x.Failf("%s: version %s -> %s", who, pm.Version(), nm.Version())
			}
			if pm.Owner() != ownerOK || c.kind == opUWCForeign {
				x.Failf("%s committed with a foreign owner on top of %s", who, hx.Snap(prev))
			}
			if !c.phaseOK(pm.Phase()) {
				x.Failf("%s committed although the expected phase did not hold: on top of %s (phase conflict retried into success)", who, hx.Snap(prev))
			}
			wantLabels, wantFins, wantPhase := labelsOf(prev), finsOf(prev), pm.Phase()
			wantVal := prev.(*conformance.IntResource).Value()
			switch {
			case c.addsTag():
				wantLabels = with(wantLabels, c.tag())
				if c.tag() != "same" {
					wantVal++
				}
			case c.kind == opAddFin:
				wantFins = with(wantFins, c.fin())
			case c.kind == opRmFin:
				wantFins = without(wantFins, finInit)
			case c.isTeardown():
				wantPhase = resource.PhaseTearingDown
			default:
				x.Failf("%s must not commit anything, committed %v", who, e)
			}
			if !slices.Equal(labelsOf(e.Res), wantLabels) || !slices.Equal(finsOf(e.Res), wantFins) || nm.Phase() != wantPhase ||
				nm.Owner() != pm.Owner() || e.Res.(*conformance.IntResource).Value() != wantVal {
				x.Failf("lost, foreign or repeated update: %s committed %s on top of %s (want labels %v finalizers %v phase %s value %d)", who, hx.Snap(e.Res), hx.Snap(prev), wantLabels, wantFins, wantPhase, wantVal)
			}
		}
	}
	// states the resource went through while a call was running
	during := func(c *call) []resource.Resource {
		var out []resource.Resource
		out = append(out, log.Before(c.logStart, typ, "r"))
		for i := c.logStart; i < c.logEnd; i++ {
			if log.Entries[i].Destroy {
				out = append(out, nil)
			} else {
				out = append(out, log.Entries[i].Res)
			}
		}
		return out
	}
	var outc []string
	for _, c := range calls {
		who := fmt.Sprintf("caller %d (%s)", c.idx, opNames[c.kind])
		n := len(commits[c])
		cls := hx.ErrClass(c.err)
		if errors.Is(c.err, errMutator) {
			cls = "mutator"
		}
		if cls == "conflict" && c.err != nil && strings.Contains(c.err.Error(), "already exists") {
			cls = "exists"
		}
		outc = append(outc, fmt.Sprintf("%s:%s:%d", opNames[c.kind], cls, n))
		states := during(c)
		some := func(p func(r resource.Resource) bool) bool {
			for _, s := range states {
				if p(s) {
					return true
				}
			}
			return false
		}
		if c.err != nil {
			if n != 0 {
				x.Failf("%s reported %v but committed %v", who, c.err, commits[c])
			}
			switch cls {
			case "notfound":
				if !some(func(r resource.Resource) bool { return r == nil }) {
					x.Failf("%s: not-found although the resource existed throughout the call", who)
				}
			case "owner":
				if c.kind != opUWCForeign {
					x.Failf("%s: owner conflict with the matching owner: %v", who, c.err)
				}
			case "phase":
				if !some(func(r resource.Resource) bool { return r != nil && !c.phaseOK(r.Metadata().Phase()) }) {
					x.Failf("%s: phase conflict although the expected phase held throughout the call: %v", who, c.err)
				}
			case "exists":
				if !c.isModify() || !some(func(r resource.Resource) bool { return r != nil }) {
					x.Failf("%s: unexpected already-exists: %v", who, c.err)
				}
			case "mutator":
				if c.kind != opUWCFail {
					x.Failf("%s: unexpected mutator error", who)
				}
			case "conflict":
				if c.kind == opDestroy && some(func(r resource.Resource) bool { return r != nil && len(finsOf(r)) > 0 }) {
					break // destroy with pending finalizers
				}
				x.Failf("%s: version conflict leaked out of a conflict-retrying helper: %v", who, c.err)
			default:
				x.Failf("%s: unclassified error %v", who, c.err)
			}
			continue
		}
		// success
		if n > 1 {
			x.Failf("%s applied its mutation %d times: %v", who, n, commits[c])
		}
		if c.kind == opUWCForeign {
			x.Failf("%s reported success with a foreign owner", who)
		}
		if c.kind == opUWCFail {
			x.Failf("%s reported success although the mutator failed", who)
		}
		if n == 1 {
			e := commits[c][0]
			if c.ret != nil && hx.Snap(c.ret) != hx.Snap(e.Res) {
				x.Failf("%s returned %s but committed %s", who, hx.Snap(c.ret), hx.Snap(e.Res))
			}
			if c.isTeardown() && c.ready != (len(finsOf(e.Res)) == 0) {
				x.Failf("%s: ready=%v but the teardown took effect on %s", who, c.ready, hx.Snap(e.Res))
			}
			continue
		}
		// success without a commit: the post-condition must already have held in a state seen during the call
		post := func(r resource.Resource) bool {
			if r == nil {
				return c.kind == opDestroy
			}
			if !c.isTeardown() && !c.phaseOK(r.Metadata().Phase()) {
				return false // the call must be explainable at a state in which its expected phase held
			}
			switch {
			case c.addsTag():
				return slices.Contains(labelsOf(r), c.tag())
			case c.kind == opAddFin:
				return slices.Contains(finsOf(r), c.fin())
			case c.kind == opRmFin:
				return !slices.Contains(finsOf(r), finInit)
			case c.isTeardown():
				return r.Metadata().Phase() == resource.PhaseTearingDown && c.ready == (len(finsOf(r)) == 0)
			case c.kind == opUWCNoop:
				return c.phaseOK(r.Metadata().Phase())
			}
			return false
		}
		if c.kind == opDestroy || !some(post) {
			x.Failf("%s reported success without a commit and without its post-condition holding during the call (states %d)", who, len(states))
		}
		if c.ret != nil && !some(func(r resource.Resource) bool { return r != nil && hx.Snap(r) == hx.Snap(c.ret) && post(r) }) {
			x.Failf("%s reported success without a commit and returned %s, which is not a state that existed during the call and satisfied its expected phase and post-condition (a conflict retried into success?)", who, hx.Snap(c.ret))
		}
	}
	// the log is the truth: fold == List
	l, err := st.List(context.Background(), hx.IntKind())
	if err != nil {
		x.Failf("list: %v", err)
	}
	if got, want := hx.SnapList(l), hx.SnapMap(log.StateAt(log.Len())); got != want {
		x.Failf("final state %q differs from the folded commit log %q", got, want)
	}
	x.Outcome("%s => %s", strings.Join(outc, ","), hx.SnapList(l))
}

func hasOp(ops []opKind, o opKind) bool {
	for _, x := range ops {
		if x == o {
			return true
		}
	}
	return false
}

func build(tier string) []explore.Scenario {
	var out []explore.Scenario
	inits := []initial{initAbsent, initRunning, initTearingDown, initRunning3Fin}
	// all unordered pairs
	for a := opKind(0); a < nOps; a++ {
		for b := a; b < nOps; b++ {
			for _, in := range inits {
				out = append(out, scenario([]opKind{a, b}, in, false, []int{0, 1, -1}))
			}
		}
	}
	// namespaced wrapper: core pairs
	core := []opKind{opUWC, opModify, opAddFin, opRmFin, opTeardown, opDestroy}
	for i, a := range core {
		for _, b := range core[i:] {
			out = append(out, scenario([]opKind{a, b}, initRunning, true, []int{0, 1, -1}))
		}
	}
	if tier == "thorough" {
		tri := []opKind{opUWC, opUWCAnyPhase, opUWCFail, opModify, opAddFin, opRmFin, opTeardown, opDestroy, opOwnedModify, opUWCSame, opModifySame}
		for i, a := range tri {
			for j := i; j < len(tri); j++ {
				for k := j; k < len(tri); k++ {
					for _, in := range []initial{initAbsent, initRunning, initRunningNoFin} {
						ops := []opKind{a, tri[j], tri[k]}
						if in == initRunningNoFin && hasOp(ops, opDestroy) && (hasOp(ops, opModify) || hasOp(ops, opOwnedModify) || hasOp(ops, opModifySame)) {
							// Destroy is not one of the calls the statement quantifies over. With a destroyable
							// resource, a Destroy plus a re-creating Modify between another caller's read and write
							// is an ABA on the version token (versions restart at 1 per incarnation): the stale
							// write lands on the new incarnation. Real, by design, and outside the statement - the
							// first thorough run flagged it; such triples keep the finalizer-protected start only.
							continue
						}
						out = append(out, scenario(ops, in, false, []int{0, 1, 2, 3, -1}))
					}
				}
			}
		}
	} else {
		for _, t := range [][]opKind{{opUWC, opUWC, opUWC}, {opUWC, opAddFin, opTeardown}, {opModify, opModify, opDestroy}, {opAddFin, opRmFin, opTeardown}, {opUWCSame, opUWCSame, opTeardown}, {opModifySame, opUWCSame, opTeardown}, {opUWCSame, opUWCSame, opDestroy}} {
			out = append(out, scenario(t, initRunning, false, []int{0, 1, 2}))
		}
		// creation races: a Modify that loses the race to create, while a third caller destroys the winner
		for _, t := range [][]opKind{{opOwnedModify, opModify, opDestroy}, {opModify, opSafeModify, opDestroy}, {opOwnedModify, opOwnedModify, opDestroy}} {
			out = append(out, scenario(t, initAbsent, false, []int{0, 1, 2}))
		}
	}
	return out
}

func main() {
	explore.Main(explore.Config{
		Property:  "C04",
		Technique: "stateless model checking of the real code under a controlled scheduler (iterative preemption bounding, unbounded for pairs), commit-log oracle",
		Rule:      "one execution per schedule of N concurrent helper calls on one resource (all unordered pairs of 16 helper variants x 3 initial states, plus triples); non-trivial = schedule differs from the default run-to-completion order in at least one decision",
		Assume: []string{
			"scheduling points before lock acquisitions, channel operations, atomics and ctx.Err reads; pure releases are not points",
			"commit order = order of BackingStore.Put/Destroy calls made under the collection lock",
			"HashTrieMap operations of namespaced/inmem are atomic steps without a scheduling point",
		},
	}, build)
}
