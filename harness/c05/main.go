// Harness C05: no lost wake-ups — every input change reaches every dependent controller.
package main

import (
	"context"
	"fmt"
	"strings"

	"github.com/siderolabs/gen/optional"
	"go.uber.org/zap"

	"github.com/cosi-project/runtime/pkg/controller"
	"github.com/cosi-project/runtime/pkg/controller/conformance"
	"github.com/cosi-project/runtime/pkg/controller/runtime"
	"github.com/cosi-project/runtime/pkg/controller/runtime/options"
	"github.com/cosi-project/runtime/pkg/resource"
	"github.com/cosi-project/runtime/pkg/state"
	"verif.local/explore"
	"verif.local/harness/hx"
	"verif.local/harness/px"
	"verif.local/vrt"
	"verif.local/vrt/vctx"
)

const (
	tInt = conformance.IntResourceType
	tStr = conformance.StrResourceType
)

type inSpec struct {
	typ  resource.Type
	id   string // "" = whole kind
	kind int
}

func (i inSpec) input() controller.Input {
	in := controller.Input{Namespace: hx.NS, Type: i.typ, Kind: i.kind}
	if i.id != "" {
		in.ID = optional.Some(resource.ID(i.id))
	}
	return in
}

func (i inSpec) String() string {
	k := []string{"weak", "strong", "destroy-ready", "q-primary", "q-mapped", "q-mapped-destroy-ready"}[i.kind]
	id := i.id
	if id == "" {
		id = "*"
	}
	return fmt.Sprintf("%s:%s/%s", k, strings.TrimPrefix(string(i.typ), "test/"), id)
}

func (i inSpec) matches(c hx.Commit) bool {
	return c.Type == i.typ && (i.id == "" || string(c.ID) == i.id)
}

type wop string // writer operation, e.g. "update a"

func doW(ctx context.Context, st state.State, op wop) {
	f := strings.Fields(string(op))
	act, id := f[0], f[1]
	typ := tInt
	if strings.HasPrefix(id, "m") {
		typ = tStr // mapped-input resources
	}
	p := resource.NewMetadata(hx.NS, typ, id, resource.VersionUndefined)
	var err error
	switch act {
	case "create":
		if typ == tStr {
			err = st.Create(ctx, conformance.NewStrResource(hx.NS, id, "v"))
		} else {
			err = st.Create(ctx, conformance.NewIntResource(hx.NS, id, 1))
		}
	case "createfin":
		r := conformance.NewIntResource(hx.NS, id, 1)
		r.Metadata().Finalizers().Add("ext")
		err = st.Create(ctx, r)
	case "update":
		_, err = st.UpdateWithConflicts(ctx, p, func(r resource.Resource) error {
			r.Metadata().Annotations().Set("n", r.Metadata().Version().String())
			return nil
		}, state.WithExpectedPhaseAny())
	case "label":
		_, err = st.UpdateWithConflicts(ctx, p, func(r resource.Resource) error {
			r.Metadata().Labels().Set("l", r.Metadata().Version().String())
			return nil
		}, state.WithExpectedPhaseAny())
	case "teardown":
		_, err = st.Teardown(ctx, p)
	case "rmfin":
		err = st.RemoveFinalizer(ctx, p, "ext")
	case "addfin":
		err = st.AddFinalizer(ctx, p, "ext")
	case "destroy":
		err = st.Destroy(ctx, p)
	}
	if err != nil {
		panic(fmt.Sprintf("writer op %q failed: %v", op, err))
	}
}

type cfg struct {
	name     string
	q        bool
	inputs   []inSpec
	nCtrl    int
	when     string // before-run | after-run | update-inputs
	cached   bool
	pre      []wop // operations before the runtime exists (pre-existing resources)
	script   []wop
	prologue bool // deterministic start-up
	bounds   []int
	// gate: with when=update-inputs, the first reconciles (which call UpdateInputs) are held back until the
	// deterministic start-up is over, so that the controllers add their inputs concurrently with each other
	// and with the writer, inside the explored part
	gate bool
	hb   bool // happens-before pruning (shared harness state is declared in body)
	// lateOther: while the script runs, another controller with an input on a kind nobody watched so far is
	// registered (its new watch delivers a bookmark-only batch into the event pipeline)
	lateOther bool
	// listFail: the first listFail List calls for the primary kind fail with a transient error (the start-up listing
	// of a queue controller must be retried until it succeeds)
	listFail int
}

// deadNamespace refuses every kind watch in namespace "dead" (an UpdateInputs that adds an input there fails half-way)
// and the first *flaky watches in namespace "flaky"; it records the kinds whose watch was established.
type deadNamespace struct {
	state.CoreState
	flaky       *int
	established map[string]bool
}

func (d deadNamespace) WatchKindAggregated(ctx context.Context, kind resource.Kind, ch chan<- []state.Event, opts ...state.WatchKindOption) error {
	vrt.TouchKey("c05.obs", true)
	if kind.Namespace() == "dead" || kind.Namespace() == "zdead" {
		return fmt.Errorf("injected: namespace %q cannot be watched", kind.Namespace())
	}
	if kind.Namespace() == "flaky" && *d.flaky > 0 {
		*d.flaky--
		return fmt.Errorf("injected: transient failure to watch %q", kind.Namespace())
	}
	if err := d.CoreState.WatchKindAggregated(ctx, kind, ch, opts...); err != nil {
		return err
	}
	d.established[kind.Namespace()+"/"+kind.Type()] = true
	return nil
}

// flakyList makes the first *n List calls of the Int kind fail.
type flakyList struct {
	state.CoreState
	n *int
}

func (f flakyList) List(ctx context.Context, kind resource.Kind, opts ...state.ListOption) (resource.List, error) {
	vrt.TouchKey("c05.obs", true)
	if kind.Type() == tInt && *f.n > 0 {
		*f.n--
		return resource.List{}, fmt.Errorf("injected transient list failure")
	}
	return f.CoreState.List(ctx, kind, opts...)
}

// observation of one controller
type obs struct {
	name      string
	lastStart int               // commit-log length when the last reconcile started (-1 = never)
	lastRead  map[string]string // input -> what it read in the last reconcile
	n         int
	// queue flavour: per item
	qStart map[string]int
	qRead  map[string]string
	// map invocations: commit-log length at start, per mapped resource
	mapStart map[string][]int
}

func readInputs(ctx context.Context, r controller.Reader, inputs []inSpec) map[string]string {
	out := map[string]string{}
	for _, in := range inputs {
		if in.id == "" {
			l, err := r.List(ctx, resource.NewMetadata(hx.NS, in.typ, "", resource.VersionUndefined))
			if err != nil {
				out[in.String()] = "ERR " + err.Error()
			} else {
				out[in.String()] = hx.SnapList(l)
			}
		} else {
			res, err := r.Get(ctx, resource.NewMetadata(hx.NS, in.typ, in.id, resource.VersionUndefined))
			if err != nil {
				if state.IsNotFoundError(err) {
					out[in.String()] = ""
				} else {
					out[in.String()] = "ERR " + err.Error()
				}
			} else {
				out[in.String()] = hx.Snap(res)
			}
		}
	}
	return out
}

func scenario(c cfg) explore.Scenario {
	var ins []string
	for _, i := range c.inputs {
		ins = append(ins, i.String())
	}
	fl := "controller"
	if c.q {
		fl = "qcontroller"
	}
	return explore.Scenario{
		Name:   c.name,
		Desc:   fmt.Sprintf("%d %s(s) with inputs %v (declared %s, cached=%v), pre-existing %v, external writer script %v; at exact quiescence the last reconcile of every controller must have started after every relevant commit and must have read the final state", c.nCtrl, fl, ins, c.when, c.cached, c.pre, c.script),
		Bounds: c.bounds,
		HB:     c.hb,
		Body:   func(x *explore.X) { body(c, x) },
	}
}

func body(c cfg, x *explore.X) {
	ctx, cancel := vctx.WithCancel(context.Background())
	log := &hx.Log{}
	var core state.CoreState = hx.NewNamespaced(log)
	listFail := c.listFail
	if listFail > 0 {
		core = flakyList{core, &listFail}
	}
	flakyWatches, watchesEstablished := 1, map[string]bool{}
	flakyAccepted := false
	if c.when == "failed-switch" {
		core = deadNamespace{core, &flakyWatches, watchesEstablished}
	}
	st := state.WrapCore(core)
	for _, op := range c.pre {
		doW(ctx, st, op)
	}
	opts := []options.Option{options.WithMetrics(false)}
	if c.cached {
		opts = append(opts, options.WithCachedResource(hx.NS, tInt))
	}
	rt, err := runtime.NewRuntime(st, zap.NewNop(), opts...)
	if err != nil {
		panic(err)
	}
	var ctrlInputs []controller.Input
	for _, i := range c.inputs {
		ctrlInputs = append(ctrlInputs, i.input())
	}
	var observations []*obs
	gate := make(chan struct{})
	register := func(i int) {
		o := &obs{name: fmt.Sprintf("c%d", i), lastStart: -1, qStart: map[string]int{}, qRead: map[string]string{}, mapStart: map[string][]int{}}
		observations = append(observations, o)
		if c.q {
			qp := &px.QProbe{NameV: o.name, SettingsV: controller.QSettings{Inputs: ctrlInputs}}
			qp.OnReconcile = func(ctx context.Context, r controller.QRuntime, p resource.Pointer) error {
				start := log.Len()
				vrt.Yield() // busy time
				res, err := r.Get(ctx, p)
				vrt.TouchKey("c05.obs", true)
				o.n++
				o.qStart[p.ID()] = start
				if err != nil {
					o.qRead[p.ID()] = ""
				} else {
					o.qRead[p.ID()] = hx.Snap(res)
				}
				return nil
			}
			qp.OnMap = func(_ context.Context, _ controller.QRuntime, md controller.ReducedResourceMetadata) ([]resource.Pointer, error) {
				vrt.TouchKey("c05.obs", true)
				o.mapStart[md.ID()] = append(o.mapStart[md.ID()], log.Len())
				vrt.Yield()
				return []resource.Pointer{hx.IntPtr("a"), hx.IntPtr("b")}, nil
			}
			if err := rt.RegisterQController(qp); err != nil {
				panic(err)
			}
			return
		}
		p := &px.Probe{NameV: o.name}
		declared := c.when != "update-inputs" && c.when != "shrink-inputs" && c.when != "failed-switch"
		if c.when == "failed-switch" {
			p.InputsV = ctrlInputs
		}
		if declared {
			p.InputsV = ctrlInputs
		}
		if c.when == "shrink-inputs" {
			// starts with an additional by-ID input on the same type and drops it in its first reconcile
			p.InputsV = append(append([]controller.Input(nil), ctrlInputs...), inSpec{tInt, "pinned", controller.InputStrong}.input())
		}
		p.OnEvent = func(ctx context.Context, r controller.Runtime, n int) error {
			if !declared {
				declared = true
				if c.gate {
					vrt.Recv1(gate)
				}
				if c.when == "failed-switch" {
					// tries to swap each declared input in turn for one in a namespace that cannot be watched; the call
					// fails, the controller falls back to exactly the inputs it had: they must all still wake it
					for i := 0; i < len(ctrlInputs) && !strings.Contains(c.name, "retry-after-failed-watch"); i++ {
						// (namespaces sorting before and after the real one: the failing addition comes before or after the
						// removal of the swapped-out input in the merge)
						for _, ns := range []string{"dead", "zdead"} {
							swapped := append([]controller.Input(nil), ctrlInputs...)
							swapped[i] = controller.Input{Namespace: ns, Type: resource.Type(fmt.Sprintf("test/unwatchable%d", i)), Kind: controller.InputWeak}
							if err := r.UpdateInputs(swapped); err == nil {
								panic("UpdateInputs with an unwatchable input succeeded")
							}
							if err := r.UpdateInputs(append([]controller.Input(nil), ctrlInputs...)); err != nil {
								panic(err)
							}
						}
					}
					// an additional input whose watch fails once: the retry either fails again or establishes the watch
					if strings.Contains(c.name, "retry-after-failed-watch") {
						extra := append(append([]controller.Input(nil), ctrlInputs...), controller.Input{Namespace: "flaky", Type: tInt, Kind: controller.InputWeak})
						if err := r.UpdateInputs(append([]controller.Input(nil), extra...)); err == nil {
							panic("UpdateInputs succeeded although the watch could not be established")
						}
						vrt.TouchKey("c05.obs", true)
						flakyAccepted = r.UpdateInputs(append([]controller.Input(nil), extra...)) == nil
					}
				} else if err := r.UpdateInputs(append([]controller.Input(nil), ctrlInputs...)); err != nil {
					panic(err)
				}
			}
			start := log.Len()
			vrt.Yield() // busy time between the wake-up and the reads
			o.lastRead = readInputs(ctx, r, c.inputs)
			vrt.TouchKey("c05.obs", true)
			o.lastStart = start
			o.n++
			return nil
		}
		if err := rt.RegisterController(p); err != nil {
			panic(err)
		}
	}
	if c.prologue {
		vrt.Branching(false)
	}
	if c.when != "after-run" {
		for i := 0; i < c.nCtrl; i++ {
			register(i)
		}
	}
	runDone := false
	vrt.GoNamed("runtime.Run", func() { rt.Run(ctx); runDone = true }) //nolint:errcheck
	if c.when == "after-run" {
		if c.prologue {
			vrt.WaitQuiescent()
		} else {
			vrt.Yield()
		}
		for i := 0; i < c.nCtrl; i++ {
			register(i)
		}
	}
	if c.prologue {
		vrt.WaitQuiescent()
		vrt.Branching(true)
	}
	if c.gate {
		vrt.Close(gate)
	}
	if c.lateOther {
		vrt.GoNamed("late-registrar", func() {
			vrt.Yield()
			late := &px.Probe{NameV: "late", InputsV: []controller.Input{{Namespace: hx.NS, Type: tStr, Kind: controller.InputWeak}}}
			if err := rt.RegisterController(late); err != nil {
				panic(err)
			}
		})
	}
	base := log.Len()
	for _, op := range c.script {
		vrt.Yield()
		doW(ctx, st, op)
	}
	// quiescence incl. back-off timers (none expected: probes never fail)
	for i := 0; i < 8; i++ {
		vrt.WaitQuiescent()
		if _, ok := vrt.PendingTimer(); !ok {
			break
		}
		vrt.FireNextTimer()
	}
	vrt.TouchKey("c05.obs", true)
	listFail = 0 // the harness's own final reads are not subject to the injected failures
	if flakyAccepted && !watchesEstablished["flaky/"+tInt] {
		x.FailKey("failed-switch/input-without-watch/"+c.name, "%s: UpdateInputs accepted the input flaky/%s on the retry after a failed watch, but at quiescence no watch of that kind has been established: no change to it can ever wake the controller", c.name, tInt)
	}
	check(c, x, log, st, observations, base)
	vrt.Branching(false)
	log.Frozen = true
	cancel()
	vrt.WaitQuiescent()
	if !runDone {
		x.Failf("Run did not return after cancel")
	}
}

func destroyReady(r resource.Resource) bool {
	return r != nil && r.Metadata().Phase() == resource.PhaseTearingDown && r.Metadata().Finalizers().Empty()
}

func check(c cfg, x *explore.X, log *hx.Log, st state.State, observations []*obs, base int) {
	ctx := context.Background()
	n := log.Len()
	// the final state is what the store holds (what a reconcile would read now), not the folded commit log
	final := map[string]resource.Resource{}
	for _, typ := range []resource.Type{tInt, tStr} {
		l, err := st.List(ctx, resource.NewMetadata(hx.NS, typ, "", resource.VersionUndefined))
		if err != nil {
			panic(err)
		}
		for _, r := range l.Items {
			final[string(typ)+"/"+string(r.Metadata().ID())] = r
		}
	}
	var sig []string
	for _, o := range observations {
		if c.q {
			checkQ(c, x, log, final, o)
			sig = append(sig, fmt.Sprintf("%s:n=%d", o.name, o.n))
			continue
		}
		sig = append(sig, fmt.Sprintf("%s:n=%d", o.name, o.n))
		if o.lastStart < 0 {
			x.Failf("controller %s never reconciled", o.name)
			continue
		}
		for _, in := range c.inputs {
			if in.kind == controller.InputDestroyReady {
				// for every matching resource that is destroy-ready now: the commit that opened the current
				// uninterrupted destroy-ready period must precede the start of the last reconcile
				for key, r := range final {
					if r.Metadata().Type() != in.typ || (in.id != "" && r.Metadata().ID() != in.id) || !destroyReady(r) {
						continue
					}
					opened := -1
					for i := n - 1; i >= 0; i-- {
						e := log.Entries[i]
						if string(e.Type)+"/"+string(e.ID) != key {
							continue
						}
						if e.Destroy || !destroyReady(e.Res) {
							break
						}
						opened = i
					}
					if opened >= o.lastStart {
						x.Failf("lost wake-up: %s (input %v): resource %s became destroy-ready at commit #%d (%v) but the last reconcile started at log length %d and nothing is enabled any more", o.name, in, key, opened, log.Entries[opened], o.lastStart)
					}
				}
				continue
			}
			last := -1
			for i := n - 1; i >= 0; i-- {
				if in.matches(log.Entries[i]) {
					last = i
					break
				}
			}
			if last >= o.lastStart {
				x.Failf("lost wake-up: %s (input %v): commit #%d (%v) is not covered: the last reconcile (of %d) started at log length %d and nothing is enabled any more", o.name, in, last, log.Entries[last], o.n, o.lastStart)
				continue
			}
			// what it read is the final state restricted to the input
			want := ""
			if in.id == "" {
				l, _ := st.List(ctx, resource.NewMetadata(hx.NS, in.typ, "", resource.VersionUndefined))
				want = hx.SnapList(l)
			} else if r, ok := final[string(in.typ)+"/"+in.id]; ok {
				want = hx.Snap(r)
			}
			if got := o.lastRead[in.String()]; got != want {
				x.Failf("stale last observation: %s (input %v) read %q in its last reconcile, the final state is %q (cache or notification lagging behind)", o.name, in, got, want)
			}
		}
	}
	x.Outcome("%s", strings.Join(sig, " "))
}

func checkQ(c cfg, x *explore.X, log *hx.Log, final map[string]resource.Resource, o *obs) {
	n := log.Len()
	for _, in := range c.inputs {
		switch in.kind {
		case controller.InputQPrimary:
			// every primary ever committed (pre-existing included): last Reconcile started after its last commit
			seen := map[string]int{}
			for i, e := range log.Entries {
				if in.matches(e) {
					seen[string(e.ID)] = i
				}
			}
			for id, last := range seen {
				start, ok := o.qStart[id]
				if !ok {
					x.Failf("lost wake-up: %s: primary %s (last commit #%d %v) was never reconciled", o.name, id, last, log.Entries[last])
					continue
				}
				if last >= start {
					x.Failf("lost wake-up: %s: primary %s: commit #%d (%v) is not covered: its last Reconcile started at log length %d", o.name, id, last, log.Entries[last], start)
					continue
				}
				want := ""
				if r, ok := final[string(in.typ)+"/"+id]; ok {
					want = hx.Snap(r)
				}
				if o.qRead[id] != want {
					x.Failf("stale last observation: %s: primary %s read %q, final state %q", o.name, id, o.qRead[id], want)
				}
			}
		case controller.InputQMapped, controller.InputQMappedDestroyReady:
			for i := n - 1; i >= 0; i-- {
				e := log.Entries[i]
				if !in.matches(e) {
					continue
				}
				if in.kind == controller.InputQMappedDestroyReady {
					// only if the resource is destroy-ready now and this commit opened the period
					r := final[string(e.Type)+"/"+string(e.ID)]
					if !destroyReady(r) || e.Destroy || !destroyReady(e.Res) {
						break
					}
					if prev := log.Before(i, e.Type, e.ID); destroyReady(prev) {
						continue
					}
				}
				// every primary named by the (content-independent) mapper has a Reconcile that started after it
				for _, p := range []string{"a", "b"} {
					if start, ok := o.qStart[p]; !ok || start <= i {
						x.Failf("lost wake-up: %s: mapped input commit #%d (%v) did not reach primary %s: its last Reconcile started at log length %d (map invocations %v)", o.name, i, e, p, start, o.mapStart)
					}
				}
				break // the latest relevant commit is the strongest requirement
			}
		}
	}
}

func build(tier string) []explore.Scenario {
	w, s, dr := controller.InputWeak, controller.InputStrong, controller.InputDestroyReady
	qp, qm, qmd := controller.InputQPrimary, controller.InputQMapped, controller.InputQMappedDestroyReady
	// with happens-before pruning (8.4) the bounds are one higher than the plain search could afford
	b0, b1 := []int{0, 1}, []int{0, 1, 2}
	if tier == "thorough" {
		b0, b1 = []int{0, 1, 2}, []int{0, 1, 2, 3}
	}
	pre := []wop{"create a"}
	var cs []cfg
	add := func(c cfg) {
		if c.nCtrl == 0 {
			c.nCtrl = 1
		}
		if c.when == "" {
			c.when = "before-run"
		}
		c.hb = true
		cs = append(cs, c)
	}
	// plain controllers
	add(cfg{name: "weak-kind/2updates", inputs: []inSpec{{tInt, "", w}}, pre: pre, script: []wop{"update a", "update a"}, prologue: true, bounds: b1})
	add(cfg{name: "weak-kind/2updates/cached", inputs: []inSpec{{tInt, "", w}}, cached: true, pre: pre, script: []wop{"update a", "update a"}, prologue: true, bounds: b1})
	add(cfg{name: "strong-kind/create-update", inputs: []inSpec{{tInt, "", s}}, pre: pre, script: []wop{"create b", "update a"}, prologue: true, bounds: b1})
	add(cfg{name: "weak-id/update-destroy", inputs: []inSpec{{tInt, "a", w}}, pre: pre, script: []wop{"update a", "destroy a"}, prologue: true, bounds: b1})
	add(cfg{name: "weak-kind/2controllers", inputs: []inSpec{{tInt, "", w}}, nCtrl: 2, pre: pre, script: []wop{"update a", "label a"}, prologue: true, bounds: b0})
	add(cfg{name: "destroy-ready-kind/teardown-rmfin", inputs: []inSpec{{tInt, "", dr}}, pre: []wop{"createfin a"}, script: []wop{"teardown a", "rmfin a"}, prologue: true, bounds: b1})
	add(cfg{name: "destroy-ready-id/rmfin-teardown", inputs: []inSpec{{tInt, "a", dr}}, pre: []wop{"createfin a"}, script: []wop{"rmfin a", "teardown a"}, prologue: true, bounds: b1})
	add(cfg{name: "weak-id-a+destroy-ready-id-b/update-a", inputs: []inSpec{{tInt, "a", w}, {tInt, "b", dr}}, pre: []wop{"create a", "create b"}, script: []wop{"update a", "update a"}, prologue: true, bounds: b0})
	add(cfg{name: "weak-kind+destroy-ready-id-b/update-a", inputs: []inSpec{{tInt, "", w}, {tInt, "b", dr}}, pre: []wop{"create a", "create b"}, script: []wop{"update a"}, prologue: true, bounds: b0})
	add(cfg{name: "weak-kind+destroy-ready-id-b/update-b", inputs: []inSpec{{tInt, "", w}, {tInt, "b", dr}}, pre: []wop{"create a", "create b"}, script: []wop{"update b", "update a", "update b"}, prologue: true, bounds: b0})
	add(cfg{name: "strong-kind+destroy-ready-id-b/label-b", inputs: []inSpec{{tInt, "", s}, {tInt, "b", dr}}, pre: []wop{"create b"}, script: []wop{"label b", "create a"}, prologue: true, bounds: b0})
	add(cfg{name: "destroy-ready-kind+weak-id-b/update-b", inputs: []inSpec{{tInt, "", dr}, {tInt, "b", w}}, pre: []wop{"create a", "create b"}, script: []wop{"update b", "update b"}, prologue: true, bounds: b0})
	add(cfg{name: "weak-kind/after-run", inputs: []inSpec{{tInt, "", w}}, when: "after-run", pre: pre, script: []wop{"update a", "update a"}, prologue: true, bounds: b0})
	add(cfg{name: "weak-kind/update-inputs", inputs: []inSpec{{tInt, "", w}}, when: "update-inputs", pre: pre, script: []wop{"update a", "create b"}, prologue: true, bounds: b0})
	add(cfg{name: "weak-kind/update-inputs/2controllers-concurrent", inputs: []inSpec{{tInt, "", w}}, nCtrl: 2, when: "update-inputs", gate: true, script: []wop{"create b"}, prologue: true, bounds: []int{0, 1}})
	add(cfg{name: "weak-kind/2updates/late-registration-of-another-kind", inputs: []inSpec{{tInt, "", w}}, lateOther: true, pre: pre, script: []wop{"update a", "update a"}, prologue: true, bounds: b0})
	add(cfg{name: "q-primary/2updates/late-registration-of-another-kind", q: true, inputs: []inSpec{{tInt, "", qp}}, lateOther: true, pre: pre, script: []wop{"update a", "update a"}, prologue: true, bounds: b0[:len(b0)-1]})
	add(cfg{name: "weak-kind/shrink-inputs", inputs: []inSpec{{tInt, "", w}}, when: "shrink-inputs", pre: pre, script: []wop{"update a", "create b"}, prologue: true, bounds: b0})
	add(cfg{name: "weak-kind/startup-race", inputs: []inSpec{{tInt, "", w}}, pre: pre, script: []wop{"update a"}, prologue: false, bounds: b0})
	add(cfg{name: "weak-kind/startup-race/cached", inputs: []inSpec{{tInt, "", w}}, cached: true, pre: pre, script: []wop{"update a"}, prologue: false, bounds: b0})
	add(cfg{name: "weak-kind/after-run/startup-race", inputs: []inSpec{{tInt, "", w}}, when: "after-run", pre: pre, script: []wop{"update a"}, prologue: false, bounds: b0})
	// queue controllers
	add(cfg{name: "q-primary/2updates", q: true, inputs: []inSpec{{tInt, "", qp}}, pre: pre, script: []wop{"update a", "update a"}, prologue: true, bounds: b1})
	add(cfg{name: "q-primary/create-destroy", q: true, inputs: []inSpec{{tInt, "", qp}}, pre: pre, script: []wop{"create b", "destroy a"}, prologue: true, bounds: b0})
	add(cfg{name: "q-primary/cached", q: true, inputs: []inSpec{{tInt, "", qp}}, cached: true, pre: pre, script: []wop{"update a", "create b"}, prologue: true, bounds: b0})
	add(cfg{name: "q-primary/startup-race/preexisting", q: true, inputs: []inSpec{{tInt, "", qp}}, pre: []wop{"create a", "create b"}, script: []wop{"update a"}, prologue: false, bounds: b0})
	add(cfg{name: "q-primary+mapped/update-mapped", q: true, inputs: []inSpec{{tInt, "", qp}, {tStr, "", qm}}, pre: []wop{"create a", "create b", "create m1"}, script: []wop{"update m1", "update a"}, prologue: true, bounds: b0})
	add(cfg{name: "q-primary+mapped-destroy-ready", q: true, inputs: []inSpec{{tInt, "", qp}, {tStr, "", qmd}}, pre: []wop{"create a", "create b", "create m1"}, script: []wop{"teardown m1"}, prologue: true, bounds: b0})
	// one mapped event matching two declarations of one queue controller (by-ID, or kind-wide and by-ID), only one
	// of them destroy-ready, in both declaration orders
	add(cfg{name: "q-primary+mapped-destroy-ready-id-m2+mapped-id-m1/update-m1", q: true, inputs: []inSpec{{tInt, "", qp}, {tStr, "m2", qmd}, {tStr, "m1", qm}}, pre: []wop{"create a", "create b", "create m1", "create m2"}, script: []wop{"update m1"}, prologue: true, bounds: b0[:len(b0)-1]})
	add(cfg{name: "q-primary+mapped-destroy-ready-kind+mapped-id-m1/update-m1", q: true, inputs: []inSpec{{tInt, "", qp}, {tStr, "", qmd}, {tStr, "m1", qm}}, pre: []wop{"create a", "create b", "create m1"}, script: []wop{"update m1"}, prologue: true, bounds: b0[:len(b0)-1]})
	add(cfg{name: "q-primary+mapped-id-m1+mapped-destroy-ready-kind/update-m1", q: true, inputs: []inSpec{{tInt, "", qp}, {tStr, "m1", qm}, {tStr, "", qmd}}, pre: []wop{"create a", "create b", "create m1"}, script: []wop{"update m1"}, prologue: true, bounds: b0[:len(b0)-1]})
	add(cfg{name: "q-primary/startup-listing-fails-twice", q: true, inputs: []inSpec{{tInt, "", qp}}, listFail: 2, pre: []wop{"create a", "create b"}, script: []wop{"create c"}, prologue: true, bounds: []int{0}})
	add(cfg{name: "weak-kind+weak-str/failed-input-switch-then-fallback", inputs: []inSpec{{tInt, "", w}, {tStr, "", w}}, when: "failed-switch", pre: []wop{"create a", "create b", "create m1"}, script: []wop{"update a", "update m1"}, prologue: true, bounds: []int{0}})
	add(cfg{name: "strong-id-a+weak-kind/new-input-retry-after-failed-watch", inputs: []inSpec{{tInt, "a", s}, {tInt, "", w}}, when: "failed-switch", pre: []wop{"create a", "create b"}, script: []wop{"update b", "update a"}, prologue: true, bounds: []int{0}})
	add(cfg{name: "q-primary/after-run", q: true, inputs: []inSpec{{tInt, "", qp}}, when: "after-run", pre: pre, script: []wop{"update a"}, prologue: true, bounds: b0})
	if tier == "thorough" {
		add(cfg{name: "weak-kind/3updates", inputs: []inSpec{{tInt, "", w}}, pre: pre, script: []wop{"update a", "create b", "update a"}, prologue: true, bounds: []int{0, 1, 2}})
		add(cfg{name: "strong-kind/2controllers/3ops", inputs: []inSpec{{tInt, "", s}}, nCtrl: 2, pre: pre, script: []wop{"update a", "create b", "destroy a"}, prologue: true, bounds: []int{0, 1}})
		add(cfg{name: "q-primary/3ops", q: true, inputs: []inSpec{{tInt, "", qp}}, pre: pre, script: []wop{"update a", "create b", "update a"}, prologue: true, bounds: []int{0, 1, 2}})
	}
	var out []explore.Scenario
	for _, c := range cs {
		out = append(out, scenario(c))
	}
	return out
}

func main() {
	explore.Main(explore.Config{
		Property:  "C05",
		Technique: "stateless model checking of the real controller runtime (watch aggregation, dedup/deliver goroutines, adapters, reconcile queue) with probe controllers under a controlled scheduler; oracle on commit-log indices evaluated at exact quiescence",
		Rule:      "one execution per schedule of an external writer script vs the runtime pipeline and probe controllers (both flavours; weak/strong/destroy-ready/q-primary/q-mapped inputs, by kind and by ID, mixed; 1-2 controllers; registered before/after Run or via UpdateInputs; cached or not; with and without deterministic start-up); non-trivial = schedule differs from the default",
		Assume: []string{
			"voluntary yields before every external write and inside every reconcile (busy time) are free switches; preemption bound as reported",
			"a probe notes the commit-log length when its reconcile starts: commits below that index are visible to its reads",
			"quiescence is exact: if the last reconcile predates a relevant commit and nothing is enabled, nothing will ever run again",
		},
	}, build)
}
