// Harness C09: reconcile queue — per-item exclusion, coalescing, no loss, honoured backoff.
package main

import (
	"context"
	"fmt"
	"sort"
	"strings"
	"time"

	"github.com/siderolabs/gen/xerrors"
	"go.uber.org/zap"

	"github.com/cosi-project/runtime/pkg/controller"
	"github.com/cosi-project/runtime/pkg/controller/conformance"
	"github.com/cosi-project/runtime/pkg/controller/generic/qtransform"
	"github.com/cosi-project/runtime/pkg/controller/runtime"
	"github.com/cosi-project/runtime/pkg/controller/runtime/options"
	"github.com/cosi-project/runtime/pkg/resource"
	"github.com/cosi-project/runtime/pkg/state"
	"github.com/cosi-project/runtime/pkg/state/impl/inmem"
	"github.com/cosi-project/runtime/pkg/state/impl/namespaced"
	"verif.local/explore"
	"verif.local/harness/hx"
	"verif.local/harness/px"
	"verif.local/vrt"
	"verif.local/vrt/vctx"
	"verif.local/vrt/vtime"
)

// ---------------------------------------------------------------- reference model of the queue

type pend struct {
	val     int
	readyAt int64
}

type qmodel struct {
	pending    map[string]pend
	processing map[string]bool
	parked     map[string]int
}

func newModel() *qmodel {
	return &qmodel{pending: map[string]pend{}, processing: map[string]bool{}, parked: map[string]int{}}
}

func (m *qmodel) put(k string, v int, now int64) {
	if m.processing[k] {
		m.parked[k] = v
		return
	}
	if p, ok := m.pending[k]; ok {
		p.val = v
		if now < p.readyAt {
			p.readyAt = now
		}
		m.pending[k] = p
		return
	}
	m.pending[k] = pend{v, now}
}

// deliver checks a delivery and moves the key to processing.
func (m *qmodel) deliver(k string, v int, now int64) string {
	if m.processing[k] {
		return fmt.Sprintf("key %s handed to a second worker while it is still being processed", k)
	}
	p, ok := m.pending[k]
	if !ok {
		return fmt.Sprintf("key %s delivered although nothing is pending for it", k)
	}
	if p.readyAt > now {
		return fmt.Sprintf("key %s delivered at t=%v although it is held back until t=%v (requeue-after not honoured)", k, time.Duration(now), time.Duration(p.readyAt))
	}
	if p.val != v {
		return fmt.Sprintf("key %s delivered with value %d, the most recent value is %d", k, v, p.val)
	}
	delete(m.pending, k)
	m.processing[k] = true
	return ""
}

func (m *qmodel) release(k string, v int, requeue bool, requeueAt int64, now int64) {
	delete(m.processing, k)
	if requeue {
		m.pending[k] = pend{v, requeueAt}
	}
	if pv, ok := m.parked[k]; ok {
		delete(m.parked, k)
		m.put(k, pv, now)
	}
}

func (m *qmodel) length() int { return len(m.pending) + len(m.parked) }

func (m *qmodel) String() string {
	var s []string
	for k, p := range m.pending {
		s = append(s, fmt.Sprintf("pending %s=%d@%v", k, p.val, time.Duration(p.readyAt)))
	}
	for k := range m.processing {
		s = append(s, "processing "+k)
	}
	for k, v := range m.parked {
		s = append(s, fmt.Sprintf("parked %s=%d", k, v))
	}
	sort.Strings(s)
	return strings.Join(s, ", ")
}

type putSpec struct {
	key string
	val int
}

var timed bool // putters let 2ms of virtual time pass between puts, workers take 10ms per item

func queueScenario(name string, putters [][]putSpec, workers, requeues int, bounds []int) explore.Scenario {
	isTimed := strings.Contains(name, "timed")
	return explore.Scenario{
		Name:   "queue/" + name,
		Desc:   fmt.Sprintf("real queue.Queue (Run loop, resettable timer, virtual clock) with putters %v, %d worker(s); each delivery's outcome is an environment choice among Release / Requeue(+1s)+trailing Release / Requeue(+3s) / Requeue(-1s)+trailing Release (at most %d requeues per worker); every rendezvous is replayed on a reference model (pending/processing/parked)", putters, workers, requeues),
		Bounds: bounds,
		HB:     true,
		Body: func(x *explore.X) {
			ctx, cancel := vctx.WithCancel(context.Background())
			q := runtime.VerifNewQueue[string, int]()
			m := newModel()
			deliveries := 0
			vrt.GoNamed("queue.Run", func() { q.Run(ctx) })
			for pi, specs := range putters {
				vrt.GoNamed(fmt.Sprintf("putter%d", pi), func() {
					for si, s := range specs {
						vrt.Yield()
						if isTimed && si > 0 {
							vtime.Sleep(2 * time.Millisecond)
						}
						q.Put(s.key, s.val)
						vrt.TouchKey("c09.model", true)
						m.put(s.key, s.val, vrt.Now()) // same run segment as the rendezvous: model order = queue order
					}
				})
			}
			idle := make([]bool, workers)
			for wi := 0; wi < workers; wi++ {
				vrt.GoNamed(fmt.Sprintf("worker%d", wi), func() {
					budget := requeues
					for {
						vrt.TouchKey("c09.model", true)
						idle[wi] = true
						rc := vrt.RecvCase(q.Get())
						if vrt.Select(false, vrt.RecvCase(ctx.Done()), rc) == 0 {
							return
						}
						vrt.TouchKey("c09.model", true)
						idle[wi] = false
						item := rc.Value
						k, v := item.Get()
						deliveries++
						if msg := m.deliver(k, v, vrt.Now()); msg != "" {
							x.Failf("%s (model: %s)", msg, m)
						}
						vrt.Yield() // processing time
						if isTimed {
							vtime.Sleep(10 * time.Millisecond)
						}
						choice := 0
						if budget > 0 {
							choice = vrt.Choose(4, "outcome")
						}
						vrt.TouchKey("c09.model", true)
						switch choice {
						case 0:
							item.Release()
							m.release(k, v, false, 0, vrt.Now())
						default:
							budget--
							d := time.Second
							switch choice {
							case 2:
								d = 3 * time.Second
							case 3:
								d = -time.Second // a requeue time that is already in the past
							}
							at := vtime.Now().Add(d)
							item.Requeue(at)
							m.release(k, v, true, int64(at.Sub(vtime.Base)), vrt.Now())
							if choice != 2 {
								// the runtime's reconcile loop always ends with a deferred Release, also after a
								// Requeue: documented as a no-op, it must not release whoever holds the item by then
								vrt.Yield()
								item.Release()
							}
						}
					}
				})
			}
			// run to quiescence, letting the virtual clock pass every requeue time
			for i := 0; i < 64; i++ {
				vrt.WaitQuiescent()
				vrt.TouchKey("c09.model", true)
				// promptness: with an idle worker nothing that is ready (a fresh notification makes an
				// item ready at once) may be waiting for a timer
				anyIdle := false
				for _, b := range idle {
					anyIdle = anyIdle || b
				}
				for k, p := range m.pending {
					if anyIdle && p.readyAt <= vrt.Now() {
						x.Failf("item %s is ready since t=%v (fresh notification or elapsed requeue time) but was not delivered to the idle worker at t=%v (model: %s)", k, time.Duration(p.readyAt), time.Duration(vrt.Now()), m)
					}
				}
				if _, ok := vrt.PendingTimer(); !ok {
					break
				}
				vrt.FireNextTimer()
			}
			allIdle := true
			for _, b := range idle {
				allIdle = allIdle && b
			}
			if !allIdle {
				x.Failf("a worker is stuck in the middle of a delivery at quiescence (model: %s)", m)
			}
			if len(m.pending) > 0 || len(m.parked) > 0 || len(m.processing) > 0 {
				x.Failf("lost notification: at quiescence with idle workers and the clock past every requeue time the model still has {%s}", m)
			}
			if got := int(q.Len()); got != m.length() {
				x.Failf("Len() = %d, pending+parked = %d (model: %s)", got, m.length(), m)
			}
			x.Outcome("deliveries=%d t=%v", deliveries, time.Duration(vrt.Now()))
			vrt.Branching(false)
			cancel()
			vrt.WaitQuiescent()
		},
	}
}

// ---------------------------------------------------------------- runtime part: reconcile outcomes and backoff

type outcome int

const (
	oOK outcome = iota
	oErr
	oRequeue
	oRequeueErr
	oSkip
	oPanic
	nOutcomes
)

var outcomeNames = []string{"ok", "error", "requeue(2s)", "requeue(error,2s)", "skip", "panic"}

type invocation struct {
	id  string
	at  time.Duration
	out outcome
}

func runtimeScenario(pattern []outcome) explore.Scenario {
	names := make([]string, len(pattern))
	for i, o := range pattern {
		names[i] = outcomeNames[o]
	}
	short := strings.Join(names, ",")
	if len(names) > 8 {
		short = fmt.Sprintf("%s,... (%d outcomes, the first %d repeating)", strings.Join(names[:9], ","), len(names), 9)
	}
	return explore.Scenario{
		Name:       "runtime/" + short,
		Desc:       fmt.Sprintf("real runtime + QController whose reconcile of item a returns %s in turn (then ok), item b always ok: deliveries are timed on the virtual clock: requeue-after honoured, error backoff grows and resets after success/skip, the failing item does not delay the other item", short),
		Sequential: true,
		Body: func(x *explore.X) {
			var inv []invocation
			var fresh []int // indices in inv at which a fresh notification (not a retry) was injected
			res := vrt.Run(nil, vrt.Options{}, func() {
				ctx, cancel := context.WithCancel(context.Background())
				st := state.WrapCore(namespaced.NewState(inmem.Build))
				rt, err := runtime.NewRuntime(st, zap.NewNop(), options.WithMetrics(false))
				if err != nil {
					panic(err)
				}
				n := 0
				qp := &px.QProbe{NameV: "q", SettingsV: controller.QSettings{Inputs: []controller.Input{{Namespace: hx.NS, Type: conformance.IntResourceType, Kind: controller.InputQPrimary}}}}
				qp.OnReconcile = func(_ context.Context, _ controller.QRuntime, p resource.Pointer) error {
					now := time.Duration(vrt.Now())
					if p.ID() != "a" {
						inv = append(inv, invocation{p.ID(), now, oOK})
						return nil
					}
					o := oOK
					if n < len(pattern) {
						o = pattern[n]
					}
					n++
					inv = append(inv, invocation{"a", now, o})
					switch o {
					case oErr:
						return fmt.Errorf("transient")
					case oRequeue:
						return controller.NewRequeueInterval(2 * time.Second)
					case oRequeueErr:
						return controller.NewRequeueError(fmt.Errorf("transient"), 2*time.Second)
					case oSkip:
						return fmt.Errorf("skip: %w", xskip())
					case oPanic:
						panic("reconcile panic")
					}
					return nil
				}
				if err := rt.RegisterQController(qp); err != nil {
					panic(err)
				}
				if err := st.Create(ctx, conformance.NewIntResource(hx.NS, "a", 1)); err != nil {
					panic(err)
				}
				vrt.Go(func() { rt.Run(ctx) }) //nolint:errcheck
				vrt.WaitQuiescent()
				// a second item arrives while a is (possibly) backing off
				if err := st.Create(ctx, conformance.NewIntResource(hx.NS, "b", 1)); err != nil {
					panic(err)
				}
				tb := time.Duration(vrt.Now())
				drain := func(first bool) {
					for i := 0; i < 64+2*len(pattern); i++ {
						vrt.WaitQuiescent()
						if i == 0 && first {
							// isolation: b must have been reconciled before any timer fired
							found := false
							for _, v := range inv {
								if v.id == "b" && v.at == tb {
									found = true
								}
							}
							if !found {
								x.Failf("item b (created at %v) was not reconciled before any backoff timer fired: %v", tb, inv)
							}
						}
						if _, ok := vrt.PendingTimer(); !ok {
							break
						}
						vrt.FireNextTimer()
					}
				}
				drain(true)
				// after a terminal outcome (ok / skip) nothing is pending: a fresh notification continues the pattern
				for round := 0; n < len(pattern) && round < len(pattern); round++ {
					if _, err := st.UpdateWithConflicts(ctx, hx.IntPtr("a"), func(r resource.Resource) error {
						r.(*conformance.IntResource).SetValue(r.(*conformance.IntResource).Value() + 1)
						return nil
					}); err != nil {
						panic(err)
					}
					fresh = append(fresh, len(inv))
					drain(false)
				}
				cancel()
				vrt.WaitQuiescent()
			})
			if len(res.Panics) > 0 {
				x.Failf("a runtime goroutine panicked (process would crash): %v", res.Panics)
			}
			// check the timeline of item a
			var as []invocation
			for _, v := range inv {
				if v.id == "a" {
					as = append(as, v)
				}
			}
			_ = fresh
			want := len(pattern)
			if last := pattern[len(pattern)-1]; last != oOK && last != oSkip {
				want++ // the final failure / requeue must be followed by one more (successful) delivery
			}
			if len(as) < want {
				x.Failf("item a was reconciled %d times, expected at least %d (a failed or requeued reconcile must be delivered again): %v", len(as), want, as)
				return
			}
			var prevErrGap time.Duration
			for i := 1; i < len(as); i++ {
				gap := as[i].at - as[i-1].at
				switch as[i-1].out {
				case oRequeue, oRequeueErr:
					if gap < 2*time.Second {
						x.Failf("delivery %d of item a came %v after a requeue-after of 2s (not honoured): %v", i, gap, as)
					}
					if as[i-1].out == oRequeue {
						prevErrGap = 0
					}
				case oErr, oPanic:
					if gap <= 0 {
						x.Failf("retry %d of item a came without any backoff after %s: %v", i, outcomeNames[as[i-1].out], as)
					}
					// growing until the back-off's ceiling (one minute) can have been reached, never shrinking after
					if prevErrGap > 0 && (gap < prevErrGap || (gap == prevErrGap && prevErrGap < 30*time.Second)) {
						x.Failf("backoff did not grow between consecutive failures of item a: %v then %v: %v", prevErrGap, gap, as)
					}
					prevErrGap = gap
				case oOK, oSkip:
					prevErrGap = 0
				}
			}
			// after ok/skip the next error's backoff starts from the initial interval again
			first := time.Duration(0)
			for i := 1; i < len(as); i++ {
				if as[i-1].out == oErr || as[i-1].out == oPanic {
					gap := as[i].at - as[i-1].at
					if first == 0 {
						first = gap
					} else if i >= 2 && (as[i-2].out == oOK || as[i-2].out == oSkip || as[i-2].out == oRequeue) && gap != first {
						x.Failf("backoff was not reset by a success: first failure waited %v, a failure right after a success waited %v: %v", first, gap, as)
					}
				}
			}
			x.Add("states", 1)
			x.Add("transitions", res.Steps)
			x.Add("evaluations", 1)
			x.Add("distinct_nontrivial", 1)
			x.Add("traces_validated_against_impl", 1)
			var tl []string
			for _, v := range as {
				tl = append(tl, fmt.Sprintf("%s@%v", outcomeNames[v.out], v.at))
			}
			x.Outcome("%s", strings.Join(tl, " "))
		},
	}
}

func xskip() error { return xerrors.NewTaggedf[qtransform.SkipReconcileTag]("nothing to do") }

func build(tier string) []explore.Scenario {
	var out []explore.Scenario
	b := []int{0, 1, 2}
	out = append(out,
		queueScenario("1putter-1worker", [][]putSpec{{{"k1", 1}, {"k1", 2}, {"k2", 3}}}, 1, 1, b),
		queueScenario("1putter-1worker-2requeues", [][]putSpec{{{"k1", 1}, {"k1", 2}}}, 1, 2, b),
		queueScenario("1putter-1worker-timed", [][]putSpec{{{"k2", 9}, {"k1", 1}, {"k1", 2}, {"k1", 3}}}, 1, 1, []int{0, 1}),
		queueScenario("2putters-1worker", [][]putSpec{{{"k1", 1}, {"k1", 2}}, {{"k1", 3}}}, 1, 1, []int{0, 1, 2}),
		queueScenario("2putters-2workers", [][]putSpec{{{"k1", 1}, {"k2", 2}}, {{"k1", 3}}}, 2, 1, []int{0}),
	)
	if tier != "thorough" {
		out = append(out, queueScenario("1putter-2workers-samekey", [][]putSpec{{{"k1", 1}, {"k1", 2}, {"k1", 3}}}, 2, 1, []int{0, 1}))
	}
	if tier == "thorough" {
		out = append(out,
			queueScenario("1putter-2workers-samekey", [][]putSpec{{{"k1", 1}, {"k1", 2}, {"k1", 3}}}, 2, 1, []int{0, 1, 2}),
			queueScenario("1putter-1worker-long", [][]putSpec{{{"k1", 1}, {"k1", 2}, {"k2", 3}, {"k1", 4}}}, 1, 2, []int{0, 1, 2}),
			queueScenario("2putters-1worker-deep", [][]putSpec{{{"k1", 1}, {"k1", 2}}, {{"k1", 3}, {"k2", 4}}}, 1, 2, []int{0, 1, 2}),
			queueScenario("2putters-2workers-deep", [][]putSpec{{{"k1", 1}, {"k1", 2}}, {{"k1", 3}, {"k2", 4}}}, 2, 1, []int{0, 1}),
		)
	}
	// all outcome patterns up to length 3 (quick) / 4 (thorough)
	maxLen := 3
	if tier == "thorough" {
		maxLen = 4
	}
	var rec func(p []outcome)
	rec = func(p []outcome) {
		if len(p) > 0 {
			out = append(out, runtimeScenario(append([]outcome{}, p...)))
		}
		if len(p) == maxLen {
			return
		}
		for o := outcome(0); o < nOutcomes; o++ {
			rec(append(p, o))
		}
	}
	rec(nil)
	// persistent failure: long runs of one failing outcome (well past a quarter of an hour of virtual time, where a
	// back-off with an elapsed-time limit would give up): every retry still waits, the waits never shrink
	long := func(o ...outcome) []outcome {
		var p []outcome
		for len(p) < 48 {
			p = append(p, o...)
		}
		return p
	}
	out = append(out, runtimeScenario(long(oErr)), runtimeScenario(long(oPanic)))
	if tier == "thorough" {
		out = append(out, runtimeScenario(long(oRequeueErr)), runtimeScenario(long(oErr, oPanic)), runtimeScenario(long(oErr, oRequeueErr)), runtimeScenario(long(oErr, oErr, oErr, oErr, oErr, oErr, oErr, oErr, oOK)))
	}
	return out
}

func main() {
	explore.Main(explore.Config{
		Property:  "C09",
		Technique: "stateless model checking of the real queue under a controlled scheduler with environment choices (outcomes) and a virtual clock, refinement against a reference model at every rendezvous; exhaustive enumeration of reconcile outcome patterns on the real runtime timed on the virtual clock",
		Rule:      "queue: one execution per schedule and outcome choice of putters vs workers; runtime: every outcome pattern up to the length over {ok,error,requeue,requeue+error,skip,panic}; non-trivial = schedule differs from the default / distinct patterns",
		Assume:    []string{"timers fire only when nothing else is enabled (virtual clock)", "the order of model updates equals the queue's rendezvous order because the harness updates the model in the same run segment as the channel operation", "back-off jitter pinned to the middle of the interval"},
	}, build)
}
