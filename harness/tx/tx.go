// Package tx is the shared harness for C06 (convergence of transform controllers) and C07 (finalizer
// ordering safety): the same executions of the real runtime + real generic controllers are explored and
// two oracles are evaluated, one at quiescence (C06) and one on every prefix of the commit log (C07).
package tx

import (
	"context"
	"errors"
	"fmt"
	"sort"
	"strings"
	"time"

	"github.com/siderolabs/gen/optional"
	"go.uber.org/zap"

	"github.com/cosi-project/runtime/pkg/controller"
	"github.com/cosi-project/runtime/pkg/controller/generic/cleanup"
	"github.com/cosi-project/runtime/pkg/controller/generic/destroy"
	"github.com/cosi-project/runtime/pkg/controller/generic/qtransform"
	"github.com/cosi-project/runtime/pkg/controller/generic/transform"
	"github.com/cosi-project/runtime/pkg/controller/runtime"
	"github.com/cosi-project/runtime/pkg/controller/runtime/options"
	"github.com/cosi-project/runtime/pkg/resource"
	"github.com/cosi-project/runtime/pkg/resource/meta/spec"
	"github.com/cosi-project/runtime/pkg/resource/typed"
	"github.com/cosi-project/runtime/pkg/safe"
	"github.com/cosi-project/runtime/pkg/state"
	"verif.local/explore"
	"verif.local/harness/hx"
	"verif.local/vrt"
	"verif.local/vrt/vctx"
	"verif.local/vrt/vtime"
)

// ---------------------------------------------------------------- resources

const (
	AType = resource.Type("test/A")
	BType = resource.Type("test/B")
	CType = resource.Type("test/C") // a second kind of dependant, made by the external actor (cleanup-combined)
)

type ASpec struct{ Int int }

func (s ASpec) DeepCopy() ASpec { return s }

type BSpec struct{ Out string }

func (s BSpec) DeepCopy() BSpec { return s }

type aExt struct{}

func (aExt) ResourceDefinition() spec.ResourceDefinitionSpec {
	return spec.ResourceDefinitionSpec{Type: AType, DefaultNamespace: hx.NS}
}

type bExt struct{}

func (bExt) ResourceDefinition() spec.ResourceDefinitionSpec {
	return spec.ResourceDefinitionSpec{Type: BType, DefaultNamespace: hx.NS}
}

type cExt struct{}

func (cExt) ResourceDefinition() spec.ResourceDefinitionSpec {
	return spec.ResourceDefinitionSpec{Type: CType, DefaultNamespace: hx.NS}
}

type A = typed.Resource[ASpec, aExt]
type B = typed.Resource[BSpec, bExt]
type C = typed.Resource[BSpec, cExt]

func NewC(id string) *C {
	return typed.NewResource[BSpec, cExt](resource.NewMetadata(hx.NS, CType, id, resource.VersionUndefined), BSpec{})
}

func NewA(id string, v int) *A {
	return typed.NewResource[ASpec, aExt](resource.NewMetadata(hx.NS, AType, id, resource.VersionUndefined), ASpec{Int: v})
}

func NewB(id string) *B {
	return typed.NewResource[BSpec, bExt](resource.NewMetadata(hx.NS, BType, id, resource.VersionUndefined), BSpec{})
}

func aPtr(id string) resource.Pointer {
	return resource.NewMetadata(hx.NS, AType, id, resource.VersionUndefined)
}
func bPtr(id string) resource.Pointer {
	return resource.NewMetadata(hx.NS, BType, id, resource.VersionUndefined)
}

func snap(r resource.Resource) string {
	if r == nil {
		return "<nil>"
	}
	s := hx.Snap(r)
	switch x := r.(type) {
	case *A:
		s += fmt.Sprintf(" int=%d", x.TypedSpec().Int)
	case *B:
		s += fmt.Sprintf(" out=%q", x.TypedSpec().Out)
	}
	return s
}

// ---------------------------------------------------------------- configuration

const ctrlName = "xform"

type Cfg struct {
	Name       string
	Flavour    string // transform | transform-fin | transform-ignoretd | qtransform | qtransform-until | cleanup
	Script     []string
	FailFirst  int // the first k transform invocations fail with a transient error
	Bounds     []int
	Thorough   bool
	ExtFinOnIn bool // input a is created with a foreign finalizer "ext" (already present)
	// GrabAtDestroy: as an environment choice, a third party puts its finalizer on an output right before
	// the controller's first Destroy of it (i.e. after the controller's Teardown reported ready)
	GrabAtDestroy bool
	// LaggingOutCache: the runtime caches the output kind (options.WithCachedResource) and the watch that feeds
	// that cache is slow - every batch after the bootstrap takes half a minute of virtual time to arrive, so the
	// controller's cached reads of outputs are stale while it reconciles (seed c07i). Cached reads may lag; the
	// finalizer protocol must not depend on them.
	LaggingOutCache bool
}

// lagger delays the aggregated watch of the output kind.
type lagger struct{ state.CoreState }

func (l lagger) WatchKindAggregated(ctx context.Context, k resource.Kind, ch chan<- []state.Event, opts ...state.WatchKindOption) error {
	if k.Type() != BType {
		return l.CoreState.WatchKindAggregated(ctx, k, ch, opts...)
	}
	in := make(chan []state.Event)
	if err := l.CoreState.WatchKindAggregated(ctx, k, in, opts...); err != nil {
		return err
	}
	vrt.GoNamed("lagging-output-watch", func() {
		first := true
		for {
			r1 := vrt.RecvCase((<-chan []state.Event)(in))
			if vrt.Select(false, vrt.RecvCase(ctx.Done()), r1) == 0 {
				return
			}
			if !first {
				if vrt.Select(false, vrt.RecvCase(ctx.Done()), vrt.RecvCase(vtime.After(30*time.Second))) == 0 {
					return
				}
			}
			first = false
			if vrt.Select(false, vrt.RecvCase(ctx.Done()), vrt.SendCase(ch).With(r1.Value)) == 0 {
				return
			}
		}
	})
	return nil
}

// grabber wraps the core state for GrabAtDestroy.
type grabber struct {
	state.CoreState
	done bool
}

func (g *grabber) Destroy(ctx context.Context, p resource.Pointer, opts ...state.DestroyOption) error {
	vrt.TouchKey("tx.grabber", true)
	if p.Type() == BType && !g.done && vrt.Choose(2, "third party grabs the output before Destroy") == 1 {
		g.done = true
		if err := state.WrapCore(g.CoreState).AddFinalizer(ctx, p, "third"); err != nil {
			panic(err)
		}
	}
	return g.CoreState.Destroy(ctx, p, opts...)
}

// usesInputFinalizers: the controller puts its own finalizer on inputs.
func (c Cfg) usesInputFinalizers() bool {
	return strings.HasPrefix(c.Flavour, "transform-fin") || strings.HasPrefix(c.Flavour, "qtransform")
}

func (c Cfg) hasDestroyController() bool { return strings.HasSuffix(c.Flavour, "+destroy") }

// hasDep: the output also carries the content of the secondary input dep-<id>.
func (c Cfg) hasDep() bool {
	return c.Flavour == "transform-extra" || c.Flavour == "qtransform-mapped" || c.Flavour == "qtransform-conc2"
}

func (c Cfg) tdCountsAsRunning() bool { return c.Flavour == "transform-ignoretd" }

// ---------------------------------------------------------------- script operations

type actor struct {
	blocked map[string]bool
	errs    []string
}

func doOp(ctx context.Context, st state.State, op string, act *actor) {
	vrt.TouchKey("tx.actor", true) // act.errs / act.blocked are shared with the tdd goroutines
	f := strings.Fields(op)
	id := ""
	if len(f) > 1 {
		id = f[1]
	}
	ignore := func(err error) {
		if err != nil && !state.IsNotFoundError(err) && !state.IsConflictError(err) && !state.IsPhaseConflictError(err) && !errors.Is(err, context.Canceled) {
			act.errs = append(act.errs, fmt.Sprintf("%s: %v", op, err))
		}
	}
	switch f[0] {
	case "create":
		ignore(st.Create(ctx, NewA(id, 1)))
	case "createfin":
		a := NewA(id, 1)
		a.Metadata().Finalizers().Add("ext")
		ignore(st.Create(ctx, a))
	case "createtd": // appears already tearing down, held by a foreign finalizer
		a := NewA(id, 1)
		a.Metadata().Finalizers().Add("ext")
		a.Metadata().SetPhase(resource.PhaseTearingDown)
		ignore(st.Create(ctx, a))
	case "update":
		_, err := st.UpdateWithConflicts(ctx, aPtr(id), func(r resource.Resource) error {
			r.(*A).TypedSpec().Int++
			return nil
		}, state.WithExpectedPhaseAny())
		ignore(err)
	case "teardown":
		_, err := st.Teardown(ctx, aPtr(id))
		ignore(err)
	case "destroy": // a plain Destroy: refused while a finalizer is pending
		if err := st.Destroy(ctx, aPtr(id)); err != nil && !state.IsNotFoundError(err) && !strings.Contains(err.Error(), "finalizers") {
			ignore(err)
		}
	case "rmext":
		ignore(st.RemoveFinalizer(ctx, aPtr(id), "ext"))
	case "tdd": // TeardownAndDestroy blocks until the finalizers are gone: own goroutine
		act.blocked[id] = true
		vrt.GoNamed("tdd:"+id, func() {
			err := st.TeardownAndDestroy(ctx, aPtr(id))
			vrt.TouchKey("tx.actor", true)
			ignore(err)
			act.blocked[id] = false
		})
	case "createon": // an input that is selected by the controller's list options
		a := NewA(id, 1)
		a.Metadata().Labels().Set("on", "1")
		ignore(st.Create(ctx, a))
	case "off", "on": // flip the selecting label
		_, err := st.UpdateWithConflicts(ctx, aPtr(id), func(r resource.Resource) error {
			if f[0] == "on" {
				r.Metadata().Labels().Set("on", "1")
			} else {
				r.Metadata().Labels().Delete("on")
			}
			return nil
		}, state.WithExpectedPhaseAny())
		ignore(err)
	case "compfin": // a third party holds the companion output
		ignore(st.AddFinalizer(ctx, NewC("comp-"+id).Metadata(), "third"))
	case "comprmfin":
		ignore(st.RemoveFinalizer(ctx, NewC("comp-"+id).Metadata(), "third"))
	case "settle": // a slow actor: it waits until the system has gone quiet before its next step
		vrt.WaitQuiescent()
	case "mkc": // the actor creates a second dependant of the input (kind C)
		ignore(st.Create(ctx, NewC("dep-"+id)))
	case "rmc":
		ignore(st.Destroy(ctx, NewC("dep-"+id).Metadata()))
	case "updc":
		_, err := st.UpdateWithConflicts(ctx, NewC("dep-"+id).Metadata(), func(r resource.Resource) error {
			r.(*C).TypedSpec().Out += "x"
			return nil
		})
		ignore(err)
	case "outfin": // a third party puts a finalizer on the output
		ignore(st.AddFinalizer(ctx, bPtr("out-"+id), "third"))
	case "outrmfin":
		ignore(st.RemoveFinalizer(ctx, bPtr("out-"+id), "third"))
	case "outteardown":
		_, err := st.Teardown(ctx, bPtr("out-"+id), state.WithTeardownOwner(ctrlName))
		ignore(err)
	default:
		panic("unknown op " + op)
	}
}

// ---------------------------------------------------------------- body

var errTransient = errors.New("transient transform error")

func register(rt *runtime.Runtime, c Cfg, invocations *int) error {
	if base, ok := strings.CutSuffix(c.Flavour, "+destroy"); ok {
		// additionally the generic destroy controller for the input kind: whoever tears an unowned input
		// down leaves the final Destroy to it
		if err := rt.RegisterQController(destroy.NewController[*A](optional.None[uint]())); err != nil {
			return err
		}
		c.Flavour = base
	}
	xform := func(in *A, out *B) error {
		vrt.Yield() // a transform takes time: whatever the actor does meanwhile lands inside the reconcile
		vrt.TouchKey("tx.invocations", true)
		*invocations++
		if *invocations <= c.FailFirst {
			return errTransient
		}
		out.TypedSpec().Out = fmt.Sprint(in.TypedSpec().Int)
		return nil
	}
	// flavours with a secondary input (kind C, "dep-<id>"): the output carries its content too
	withDep := func(ctx context.Context, r controller.Reader, in *A, out *B) error {
		if err := xform(in, out); err != nil {
			return err
		}
		dep, err := safe.ReaderGetByID[*C](ctx, r, "dep-"+in.Metadata().ID())
		switch {
		case err == nil:
			out.TypedSpec().Out += ":" + dep.TypedSpec().Out
		case state.IsNotFoundError(err):
			out.TypedSpec().Out += ":-"
		default:
			return err
		}
		return nil
	}
	switch c.Flavour {
	case "transform-listopts":
		// only inputs labelled on=1 are mapped (transform.WithInputListOptions)
		return rt.RegisterController(transform.NewController(transform.Settings[*A, *B]{
			Name:            ctrlName,
			MapMetadataFunc: func(in *A) *B { return NewB("out-" + in.Metadata().ID()) },
			TransformFunc: func(_ context.Context, _ controller.Reader, _ *zap.Logger, in *A, out *B) error {
				return xform(in, out)
			},
		}, transform.WithInputListOptions(state.WithLabelQuery(resource.LabelEqual("on", "1")))))
	case "transform-extra":
		return rt.RegisterController(transform.NewController(transform.Settings[*A, *B]{
			Name:            ctrlName,
			MapMetadataFunc: func(in *A) *B { return NewB("out-" + in.Metadata().ID()) },
			TransformFunc: func(ctx context.Context, r controller.Reader, _ *zap.Logger, in *A, out *B) error {
				return withDep(ctx, r, in, out)
			},
		}, transform.WithExtraInputs(controller.Input{Namespace: hx.NS, Type: CType, Kind: controller.InputWeak})))
	case "qtransform-mapped", "qtransform-conc2":
		// (a plain mapper by ID: the typed helper skips inputs that no longer exist, by its contract)
		opts := []qtransform.ControllerOption{qtransform.WithExtraMappedInput[*C](
			func(_ context.Context, _ *zap.Logger, _ controller.QRuntime, dep controller.ReducedResourceMetadata) ([]resource.Pointer, error) {
				return []resource.Pointer{aPtr(strings.TrimPrefix(dep.ID(), "dep-"))}, nil
			})}
		if c.Flavour == "qtransform-conc2" {
			opts = append(opts, qtransform.WithConcurrency(2))
		}
		return rt.RegisterQController(qtransform.NewQController(qtransform.Settings[*A, *B]{
			Name:              ctrlName,
			MapMetadataFunc:   func(in *A) *B { return NewB("out-" + in.Metadata().ID()) },
			UnmapMetadataFunc: func(out *B) *A { return NewA(strings.TrimPrefix(out.Metadata().ID(), "out-"), 0) },
			TransformFunc: func(ctx context.Context, r controller.Reader, _ *zap.Logger, in *A, out *B) error {
				return withDep(ctx, r, in, out)
			},
		}, opts...))
	case "transform", "transform-fin", "transform-ignoretd":
		var opts []transform.ControllerOption
		if c.Flavour == "transform-fin" {
			opts = append(opts, transform.WithInputFinalizers())
		}
		if c.Flavour == "transform-ignoretd" {
			opts = append(opts, transform.WithIgnoreTearingDownInputs())
		}
		return rt.RegisterController(transform.NewController(transform.Settings[*A, *B]{
			Name:            ctrlName,
			MapMetadataFunc: func(in *A) *B { return NewB("out-" + in.Metadata().ID()) },
			TransformFunc: func(_ context.Context, _ controller.Reader, _ *zap.Logger, in *A, out *B) error {
				return xform(in, out)
			},
			FinalizerRemovalFunc: func(context.Context, controller.Reader, *zap.Logger, *A) error { return nil },
		}, opts...))
	case "qtransform-extraout":
		// the transform also manages a companion output (kind C, "comp-<id>"): wanted while the input's value is
		// odd, torn down (and destroyed once nobody holds it) while it is even; a failure there is a failed
		// transform: the item must be retried (seed c06i)
		return rt.RegisterQController(qtransform.NewQController(qtransform.Settings[*A, *B]{
			Name:              ctrlName,
			MapMetadataFunc:   func(in *A) *B { return NewB("out-" + in.Metadata().ID()) },
			UnmapMetadataFunc: func(out *B) *A { return NewA(strings.TrimPrefix(out.Metadata().ID(), "out-"), 0) },
			TransformExtraOutputFunc: func(ctx context.Context, r controller.ReaderWriter, _ *zap.Logger, in *A, out *B) error {
				if err := xform(in, out); err != nil {
					return err
				}
				comp := NewC("comp-" + in.Metadata().ID())
				if in.TypedSpec().Int%2 == 0 {
					ready, err := r.Teardown(ctx, comp.Metadata())
					if err != nil {
						if state.IsNotFoundError(err) {
							return nil
						}
						return err
					}
					if ready {
						return r.Destroy(ctx, comp.Metadata())
					}
					return nil
				}
				existing, err := r.Get(ctx, comp.Metadata())
				if err != nil && !state.IsNotFoundError(err) {
					return err
				}
				if existing != nil && existing.Metadata().Phase() == resource.PhaseTearingDown && existing.Metadata().Finalizers().Empty() {
					if err = r.Destroy(ctx, comp.Metadata()); err != nil {
						return err
					}
				}
				return safe.WriterModify(ctx, r, comp, func(c *C) error {
					c.TypedSpec().Out = fmt.Sprint(in.TypedSpec().Int)
					return nil
				})
			},
		}, qtransform.WithExtraOutputs(controller.Output{Type: CType, Kind: controller.OutputExclusive})))
	case "qtransform", "qtransform-until", "qtransform-while":
		var opts []qtransform.ControllerOption
		if c.Flavour == "qtransform-until" {
			opts = append(opts, qtransform.WithIgnoreTeardownUntil("allowed"))
		}
		if c.Flavour == "qtransform-while" {
			opts = append(opts, qtransform.WithIgnoreTeardownWhile("ext"))
		}
		return rt.RegisterQController(qtransform.NewQController(qtransform.Settings[*A, *B]{
			Name:              ctrlName,
			MapMetadataFunc:   func(in *A) *B { return NewB("out-" + in.Metadata().ID()) },
			UnmapMetadataFunc: func(out *B) *A { return NewA(strings.TrimPrefix(out.Metadata().ID(), "out-"), 0) },
			TransformFunc: func(_ context.Context, _ controller.Reader, _ *zap.Logger, in *A, out *B) error {
				return xform(in, out)
			},
		}, opts...))
	case "cleanup", "cleanup-combined":
		// the outputs are owned by a plain transform controller; the cleanup controller guards the inputs
		if err := rt.RegisterController(transform.NewController(transform.Settings[*A, *B]{
			Name:            ctrlName,
			MapMetadataFunc: func(in *A) *B { return NewB("out-" + in.Metadata().ID()) },
			TransformFunc: func(_ context.Context, _ controller.Reader, _ *zap.Logger, in *A, out *B) error {
				return xform(in, out)
			},
		})); err != nil {
			return err
		}
		hb := cleanup.HasNoOutputs[*B](func(in *A) state.ListOption {
			return state.WithIDQuery(resource.IDRegexpMatch(mustRe("^out-" + in.Metadata().ID() + "$")))
		})
		if c.Flavour == "cleanup-combined" {
			// two kinds of dependants; the C handler comes first, so it is the one still pending when the
			// transform controller has already removed the B output
			hc := cleanup.HasNoOutputs[*C](func(in *A) state.ListOption {
				return state.WithIDQuery(resource.IDRegexpMatch(mustRe("^dep-" + in.Metadata().ID() + "$")))
			})
			hb = cleanup.Combine(hc, hb)
		}
		return rt.RegisterController(cleanup.NewController(cleanup.Settings[*A]{Name: "cleaner", Handler: hb}))
	}
	panic("flavour " + c.Flavour)
}

// RegisterFlavour registers the controller(s) of a flavour on rt (used by the free-running race pass).
func RegisterFlavour(rt *runtime.Runtime, flavour string) error {
	n := 0
	return register(rt, Cfg{Flavour: flavour}, &n)
}

// APtr / BPtr are the pointers of input id / of the output derived from input id.
func APtr(id string) resource.Pointer { return aPtr(id) }

// BPtr see APtr.
func BPtr(id string) resource.Pointer { return bPtr("out-" + id) }

// Body runs one execution; prop selects which oracle's failures are reported ("C06" or "C07").
func Body(c Cfg, prop string, x *explore.X) {
	ctx, cancel := vctx.WithCancel(context.Background())
	log := &hx.Log{}
	var core state.CoreState = hx.NewNamespaced(log)
	if c.GrabAtDestroy {
		core = &grabber{CoreState: core}
	}
	st := state.WrapCore(core)
	rtOpts := []options.Option{options.WithMetrics(false)}
	rtState := st
	if c.LaggingOutCache {
		rtOpts = append(rtOpts, options.WithCachedResource(hx.NS, BType))
		rtState = state.WrapCore(lagger{core})
	}
	rt, err := runtime.NewRuntime(rtState, zap.NewNop(), rtOpts...)
	if err != nil {
		panic(err)
	}
	invocations := 0
	if err := register(rt, c, &invocations); err != nil {
		panic(err)
	}
	vrt.Branching(false)
	runDone := false
	vrt.GoNamed("runtime.Run", func() { rt.Run(ctx); runDone = true }) //nolint:errcheck
	vrt.WaitQuiescent()
	vrt.Branching(true)
	act := &actor{blocked: map[string]bool{}}
	for _, op := range c.Script {
		vrt.Yield()
		doOp(ctx, st, op, act)
	}
	// quiescence, letting back-off timers fire up to a horizon of virtual time
	for i := 0; i < 64; i++ {
		vrt.WaitQuiescent()
		t, ok := vrt.PendingTimer()
		if !ok || time.Duration(t) > 10*time.Minute {
			break
		}
		vrt.FireNextTimer()
	}
	vrt.TouchKey("tx.actor", true)
	if len(act.errs) > 0 {
		x.FailKey("harness/"+c.Name, "external actor errors: %v", act.errs)
	}
	// the quiescent state is read from the store itself (what callers see), not derived from the commit log
	final := map[string]resource.Resource{}
	for _, typ := range []resource.Type{AType, BType, CType} {
		l, err := st.List(ctx, resource.NewMetadata(hx.NS, typ, "", resource.VersionUndefined))
		if err != nil {
			panic(err)
		}
		for _, r := range l.Items {
			final[string(typ)+"/"+string(r.Metadata().ID())] = r
		}
	}
	if prop == "C06" {
		checkConvergence(c, x, final, act)
	} else {
		checkOrdering(c, x, log)
		// ... and the consequence, on what the store holds now: no owned output without its guarded input
		if c.usesInputFinalizers() {
			for k, out := range final {
				if !strings.HasPrefix(k, string(BType)+"/") || out.Metadata().Owner() != ctrlName {
					continue
				}
				in := final[string(AType)+"/"+strings.TrimPrefix(string(out.Metadata().ID()), "out-")]
				if in == nil {
					x.FailKey("order/input-destroyed-before-output", "%s: at quiescence the store holds the output %s but its input is gone", c.Name, snap(out))
				} else if !in.Metadata().Finalizers().Has(ctrlName) {
					x.FailKey("order/output-without-input-finalizer", "%s: at quiescence the store holds the output %s while its input %s does not carry the controller's finalizer", c.Name, snap(out), snap(in))
				}
			}
		}
	}
	outs := 0
	for k := range final {
		if strings.HasPrefix(k, string(BType)) {
			outs++
		}
	}
	x.Outcome("outputs=%d inputs=%d", outs, len(final)-outs)
	vrt.Branching(false)
	log.Frozen = true
	cancel()
	vrt.WaitQuiescent()
	if !runDone {
		x.Failf("Run did not return after cancel")
	}
}

// checkConvergence: C06 at quiescence.
func checkConvergence(c Cfg, x *explore.X, final map[string]resource.Resource, act *actor) {
	wantOut := map[string]string{}
	for k, r := range final {
		if !strings.HasPrefix(k, string(AType)+"/") {
			continue
		}
		in := r.(*A)
		running := in.Metadata().Phase() == resource.PhaseRunning
		if !running && c.tdCountsAsRunning() {
			running = true
		}
		if !running && c.Flavour == "qtransform-while" && in.Metadata().Finalizers().Has("ext") {
			running = true // teardown is ignored while the foreign finalizer is present
		}
		if !running && c.Flavour == "qtransform-until" {
			for _, f := range *in.Metadata().Finalizers() {
				if f != ctrlName && f != "allowed" {
					running = true // teardown is ignored until only allowed finalizers remain
				}
			}
		}
		if running && c.Flavour == "transform-listopts" {
			if v, _ := in.Metadata().Labels().Get("on"); v != "1" {
				running = false // not selected by the controller's list options: not a mapped input
			}
		}
		if running {
			want := fmt.Sprint(in.TypedSpec().Int)
			if c.hasDep() {
				if dep, ok := final[string(CType)+"/dep-"+in.Metadata().ID()]; ok {
					want += ":" + dep.(*C).TypedSpec().Out
				} else {
					want += ":-"
				}
			}
			wantOut["out-"+in.Metadata().ID()] = want
		}
	}
	for k, r := range final {
		if !strings.HasPrefix(k, string(BType)+"/") {
			continue
		}
		out := r.(*B)
		id := out.Metadata().ID()
		want, ok := wantOut[id]
		if !ok {
			// an extra output is tolerated only while a foreign finalizer holds it
			if out.Metadata().Finalizers().Empty() {
				x.FailKey("converge/orphan", "%s: at quiescence output %s exists but no running mapped input does and no foreign finalizer holds it (orphaned output)", c.Name, snap(out))
			}
			continue
		}
		delete(wantOut, id)
		if out.Metadata().Owner() != ctrlName {
			x.FailKey("converge/owner", "%s: output %s is not owned by the controller", c.Name, snap(out))
		}
		if out.TypedSpec().Out != want && out.Metadata().Phase() == resource.PhaseRunning {
			x.FailKey("converge/stale", "%s: at quiescence output %s does not carry the latest transformed content %q (stale output)", c.Name, snap(out), want)
		}
	}
	if c.Flavour == "qtransform-extraout" {
		for k, r := range final {
			if !strings.HasPrefix(k, string(AType)+"/") {
				continue
			}
			in := r.(*A)
			comp, _ := final[string(CType)+"/comp-"+in.Metadata().ID()].(*C)
			held := comp != nil && !comp.Metadata().Finalizers().Empty()
			switch {
			case in.Metadata().Phase() != resource.PhaseRunning || held:
			case in.TypedSpec().Int%2 == 1 && (comp == nil || comp.Metadata().Phase() != resource.PhaseRunning || comp.TypedSpec().Out != fmt.Sprint(in.TypedSpec().Int)):
				x.FailKey("converge/companion", "%s: at quiescence the companion output of the running input %s is %s, want a running one with content %d", c.Name, snap(in), snap(final[string(CType)+"/comp-"+in.Metadata().ID()]), in.TypedSpec().Int)
				// (an unwanted companion that was held when the transform last ran stays torn down until the next
				// change of the input: that is this transform function's choice, not the library's)
			}
		}
	}
	for id, want := range wantOut {
		x.FailKey("converge/missing", "%s: at quiescence the output %s (content %q) of a running mapped input is missing; final state {%s}", c.Name, id, want, hx.SnapMap(final))
	}
	// every torn-down input whose output is gone no longer carries the controller's finalizer
	for k, r := range final {
		if !strings.HasPrefix(k, string(AType)+"/") {
			continue
		}
		in := r.(*A)
		_, outExists := final[string(BType)+"/out-"+in.Metadata().ID()]
		if in.Metadata().Phase() == resource.PhaseTearingDown && !outExists && in.Metadata().Finalizers().Has(ctrlName) {
			x.FailKey("converge/stuck-finalizer", "%s: input %s is torn down and its output is gone but it still carries the controller's finalizer (it can never be destroyed)", c.Name, snap(in))
		}
	}
	if c.hasDestroyController() {
		for k, r := range final {
			if strings.HasPrefix(k, string(AType)+"/") && r.Metadata().Phase() == resource.PhaseTearingDown && r.Metadata().Owner() == "" && r.Metadata().Finalizers().Empty() {
				x.FailKey("converge/not-destroyed", "%s: at quiescence the unowned input %s is torn down and free of finalizers but the destroy controller has not destroyed it", c.Name, snap(r))
			}
		}
	}
	for id, b := range act.blocked {
		if !b {
			continue
		}
		in := final[string(AType)+"/"+id]
		if in == nil {
			continue
		}
		for _, f := range *in.Metadata().Finalizers() {
			if f == ctrlName || f == "cleaner" {
				if _, outExists := final[string(BType)+"/out-"+id]; !outExists || f == ctrlName && final[string(BType)+"/out-"+id].Metadata().Finalizers().Empty() {
					x.FailKey("converge/blocked-destroy", "%s: TeardownAndDestroy(%s) is still blocked at quiescence by finalizer %q although nothing holds the output: input %s", c.Name, id, f, snap(in))
				}
			}
		}
	}
}

// checkOrdering: C07 on every prefix of the commit log.
func checkOrdering(c Cfg, x *explore.X, log *hx.Log) {
	cur := map[string]resource.Resource{}
	tdSeen := map[string]bool{}
	guarded := map[string]bool{} // cleanup flavour: this incarnation of the input has carried the cleaner's finalizer
	for i, e := range log.Entries {
		key := string(e.Type) + "/" + string(e.ID)
		prev := cur[key]
		if e.Destroy {
			delete(cur, key)
		} else {
			cur[key] = e.Res
		}
		at := fmt.Sprintf("commit #%d (%v)", i, e)
		switch e.Type {
		case BType:
			in := cur[string(AType)+"/"+strings.TrimPrefix(string(e.ID), "out-")]
			switch {
			case e.Destroy:
				// I2: destroyed only after being marked tearing-down and with an empty finalizer set
				if prev == nil || prev.Metadata().Phase() != resource.PhaseTearingDown || !tdSeen[key] {
					x.FailKey("order/destroy-without-teardown", "%s: %s: output destroyed without having been marked tearing-down first (previous state %s)", c.Name, at, snap(prev))
				}
				if prev != nil && !prev.Metadata().Finalizers().Empty() {
					x.FailKey("order/destroy-with-finalizers", "%s: %s: output destroyed while holding finalizers %s", c.Name, at, snap(prev))
				}
				delete(tdSeen, key)
			default:
				if e.Res.Metadata().Phase() == resource.PhaseTearingDown {
					tdSeen[key] = true
				}
				// I1: while an owned output exists, its input exists and carries the controller's finalizer
				if c.usesInputFinalizers() && e.Res.Metadata().Owner() == ctrlName {
					if in == nil || !in.Metadata().Finalizers().Has(ctrlName) {
						x.FailKey("order/output-without-input-finalizer", "%s: %s: the output exists while its input %s does not carry the controller's finalizer", c.Name, at, snap(in))
					}
				}
			}
		case AType:
			outKey := string(BType) + "/out-" + string(e.ID)
			out := cur[outKey]
			if !e.Destroy && e.Res.Metadata().Finalizers().Has("cleaner") {
				guarded[key] = true
			}
			if e.Destroy {
				// a cleanup controller guards an input from the moment it has put its finalizer on it (it is not
				// the controller that creates the outputs, so an input destroyed before that is nobody's promise)
				wasGuarded := guarded[key]
				delete(guarded, key)
				if out != nil && out.Metadata().Owner() == ctrlName && (c.usesInputFinalizers() || (strings.HasPrefix(c.Flavour, "cleanup") && wasGuarded)) {
					x.FailKey("order/input-destroyed-before-output", "%s: %s: the input disappeared while its derived output %s still exists", c.Name, at, snap(out))
				}
				continue
			}
			if prev == nil {
				continue
			}
			had := func(f string) bool { return prev.Metadata().Finalizers().Has(f) }
			has := func(f string) bool { return e.Res.Metadata().Finalizers().Has(f) }
			if c.usesInputFinalizers() && had(ctrlName) && !has(ctrlName) && out != nil && out.Metadata().Owner() == ctrlName {
				x.FailKey("order/finalizer-removed-before-output-destroyed", "%s: %s: the controller's finalizer left the input while the output %s still exists", c.Name, at, snap(out))
			}
			if strings.HasPrefix(c.Flavour, "cleanup") && had("cleaner") && !has("cleaner") {
				dep := cur[string(CType)+"/dep-"+string(e.ID)]
				if prev.Metadata().Phase() != resource.PhaseTearingDown || out != nil || dep != nil {
					x.FailKey("order/cleanup-released-early", "%s: %s: the cleanup controller released its finalizer although the input was not tearing down or a dependant (%s / %s) still exists", c.Name, at, snap(out), snap(dep))
				}
			}
		}
	}
}

// ---------------------------------------------------------------- scenario sets

func scripts(thorough bool) map[string][]string {
	s := map[string][]string{
		"create-update":             {"create a", "update a"},
		"create-tdd":                {"create a", "tdd a"},
		"create-update-tdd":         {"create a", "update a", "tdd a"},
		"create-tdd-recreate":       {"create a", "tdd a", "create a"},
		"two-inputs":                {"create a", "create b", "tdd a"},
		"output-held-by-thirdparty": {"create a", "outfin a", "tdd a", "outrmfin a"},
		"external-output-teardown":  {"create a", "outteardown a", "update a"},
		"teardown-only":             {"create a", "teardown a"},
		"create-destroy":            {"create a", "destroy a"},
	}
	if thorough {
		s["create-update-update-tdd"] = []string{"create a", "update a", "update a", "tdd a"}
		s["thirdparty-then-recreate"] = []string{"create a", "outfin a", "tdd a", "outrmfin a", "create a"}
	}
	return s
}

func mustRe(s string) *regexpT { return compile(s) }

// Build returns the scenarios for prop ("C06" or "C07").
// capFor: in the quick tier the fast-actor scenarios (whose schedule spaces are far beyond any cap) get half
// the budget of the slow-actor ones (which mostly finish).
func capFor(c Cfg, base int, thorough bool) int {
	if !strings.Contains(c.Name, "/slow/") {
		return base / 2
	}
	return base
}

func Build(prop, tier string) []explore.Scenario {
	thorough := tier == "thorough"
	b := []int{0}
	if thorough {
		b = []int{0, 1}
	}
	var cfgs []Cfg
	names := make([]string, 0)
	sc := scripts(thorough)
	for n := range sc {
		names = append(names, n)
	}
	sort.Strings(names)
	quickScripts := map[string]bool{"create-update": true, "create-tdd": true, "create-destroy": true, "teardown-only": true, "output-held-by-thirdparty": true, "create-tdd-recreate": true}
	for _, fl := range []string{"transform", "transform-fin", "transform-ignoretd", "qtransform", "cleanup"} {
		for _, n := range names {
			if prop == "C07" && fl == "transform-ignoretd" {
				continue
			}
			if !thorough && !quickScripts[n] {
				continue
			}
			bb := b
			if n == "create-destroy" && fl != "cleanup" {
				// small enough for two preemptions: a plain Destroy racing with the controller's first
				// finalizer needs one in each of them
				bb = []int{0, 1, 2}
			}
			cfgs = append(cfgs, Cfg{Name: fl + "/" + n, Flavour: fl, Script: sc[n], Bounds: bb})

		}
		cfgs = append(cfgs, Cfg{Name: fl + "/create-update/transient-error", Flavour: fl, Script: []string{"create a", "update a"}, FailFirst: 1, Bounds: b})
	}
	// a cleanup controller with two combined handlers: the dependants disappear in either order
	for n, sc2 := range map[string][]string{
		"tdd-then-rmc":      {"create a", "mkc a", "tdd a", "rmc a"},
		"rmc-then-tdd":      {"create a", "mkc a", "rmc a", "tdd a"},
		"slow/tdd-then-rmc": {"create a", "mkc a", "settle", "tdd a", "settle", "rmc a"},
		"slow/rmc-then-tdd": {"create a", "mkc a", "settle", "rmc a", "settle", "tdd a"},
	} {
		cfgs = append(cfgs, Cfg{Name: "cleanup-combined/" + n, Flavour: "cleanup-combined", Script: sc2, Bounds: []int{0}})
	}
	// inputs selected by list options: an input that stops (or starts) matching is an input that goes (or comes)
	cfgs = append(cfgs,
		Cfg{Name: "transform-listopts/on-off", Flavour: "transform-listopts", Script: []string{"createon a", "create b", "off a"}, Bounds: b},
		Cfg{Name: "transform-listopts/off-on-update", Flavour: "transform-listopts", Script: []string{"create a", "on a", "update a", "off a", "on a"}, Bounds: b},
	)
	// secondary inputs: an extra input of a transform controller, a mapped input of a queue transform
	// (also with two workers): the output follows both inputs
	for _, fl := range []string{"transform-extra", "qtransform-mapped", "qtransform-conc2"} {
		cfgs = append(cfgs,
			Cfg{Name: fl + "/dep-after-input", Flavour: fl, Script: []string{"create a", "mkc a", "updc a"}, Bounds: b},
			Cfg{Name: fl + "/dep-before-input-then-gone", Flavour: fl, Script: []string{"mkc a", "create a", "rmc a"}, Bounds: b},
		)
		if fl == "qtransform-conc2" || thorough {
			cfgs = append(cfgs, Cfg{Name: fl + "/two-inputs", Flavour: fl, Script: []string{"create a", "create b", "mkc b", "update a", "updc b"}, Bounds: b})
		}
	}
	// the generic destroy controller finishes what a plain Teardown starts (heavy: the quick tier runs one
	// flavour, by the slow actor only - see the filter below)
	for _, fl := range []string{"qtransform+destroy", "transform-fin+destroy"} {
		if !thorough && fl != "qtransform+destroy" {
			continue
		}
		cfgs = append(cfgs,
			Cfg{Name: fl + "/teardown-only", Flavour: fl, Script: []string{"create a", "teardown a"}, Bounds: b},
			Cfg{Name: fl + "/teardown-held-output", Flavour: fl, Script: []string{"create a", "outfin a", "teardown a", "outrmfin a"}, Bounds: b},
		)
		if thorough {
			cfgs = append(cfgs, Cfg{Name: fl + "/teardown-recreate", Flavour: fl, Script: []string{"create a", "teardown a", "create a"}, Bounds: b})
		}
	}
	// a transform that keeps failing: the input gets the finalizer but never an output; then it is torn down
	for _, fl := range []string{"transform-fin", "qtransform"} {
		cfgs = append(cfgs, Cfg{Name: fl + "/always-failing-transform/tdd", Flavour: fl, Script: []string{"create a", "tdd a"}, FailFirst: 1 << 20, Bounds: []int{0}})
	}
	// a third party grabs the output between the controller's teardown and destroy (needs one preemption)
	for _, fl := range []string{"transform-fin", "qtransform"} {
		cfgs = append(cfgs, Cfg{Name: fl + "/thirdparty-grabs-output-before-destroy", Flavour: fl, Script: []string{"create a", "tdd a", "outrmfin a"}, GrabAtDestroy: true, Bounds: []int{0}})
	}
	// a transform that also manages a companion output which a third party may hold
	cfgs = append(cfgs,
		Cfg{Name: "qtransform-extraout/held-companion-rewanted", Flavour: "qtransform-extraout", Script: []string{"create a", "compfin a", "update a", "update a", "comprmfin a"}, Bounds: []int{0}},
		Cfg{Name: "qtransform-extraout/held-companion-released-early", Flavour: "qtransform-extraout", Script: []string{"create a", "compfin a", "update a", "comprmfin a", "update a"}, Bounds: []int{0}},
		Cfg{Name: "qtransform-extraout/held-companion-tdd", Flavour: "qtransform-extraout", Script: []string{"create a", "compfin a", "update a", "update a", "tdd a", "comprmfin a"}, Bounds: []int{0}},
	)
	// the output kind is cached by the runtime and that cache lags behind the state
	for _, fl := range []string{"transform-fin", "qtransform"} {
		cfgs = append(cfgs,
			Cfg{Name: fl + "/lagging-output-cache/tdd", Flavour: fl, Script: []string{"create a", "tdd a"}, LaggingOutCache: true, Bounds: []int{0}},
			Cfg{Name: fl + "/lagging-output-cache/update-tdd-recreate", Flavour: fl, Script: []string{"create a", "update a", "tdd a", "create a"}, LaggingOutCache: true, Bounds: []int{0}},
		)
	}
	// teardown-ignoring options of qtransform: inputs first seen while already tearing down
	for _, fl := range []string{"qtransform-until", "qtransform-while"} {
		cfgs = append(cfgs,
			Cfg{Name: fl + "/seen-tearing-down/rmext", Flavour: fl, Script: []string{"createtd a", "rmext a"}, Bounds: b},
			Cfg{Name: fl + "/running-then-teardown/rmext", Flavour: fl, Script: []string{"createfin a", "teardown a", "rmext a"}, Bounds: b},
			Cfg{Name: fl + "/seen-tearing-down/tdd", Flavour: fl, Script: []string{"createtd a", "tdd a", "rmext a"}, Bounds: b},
		)
	}
	// every history once more by a slow actor (it lets the system go quiet before every step): far fewer
	// schedules, and they start from the deep states a fast actor reaches last
	for _, c := range append([]Cfg(nil), cfgs...) {
		if strings.Contains(c.Name, "/slow/") {
			continue
		}
		var slow []string
		for i, op := range c.Script {
			if i > 0 {
				slow = append(slow, "settle")
			}
			slow = append(slow, op)
		}
		sc := c
		sc.Name = strings.Replace(c.Name, "/", "/slow/", 1)
		sc.Script = slow
		sc.Bounds = []int{0, 1}
		if thorough {
			sc.Bounds = []int{0, 1, 2}
		} else if c.LaggingOutCache {
			sc.Bounds = []int{0}
		}
		cfgs = append(cfgs, sc)
	}
	// slow-actor scenarios first: they are cheap and mostly finish, and scenarios are served in list order
	sort.SliceStable(cfgs, func(i, j int) bool {
		return strings.Contains(cfgs[i].Name, "/slow/") && !strings.Contains(cfgs[j].Name, "/slow/")
	})
	maxExecs := 24000
	if thorough {
		// one happens-before cache = one worker per scenario: the cap is what keeps ~200 scenarios inside
		// the tier's deadline on 16 workers
		maxExecs = 400000
	}
	var out []explore.Scenario
	for _, c := range cfgs {
		c := c
		if !thorough && !strings.Contains(c.Name, "/slow/") && c.LaggingOutCache {
			continue // quick tier: the lagging-cache histories by the slow actor only
		}
		if !thorough && !strings.Contains(c.Name, "/slow/") {
			// quick tier: the fast actor (whose schedule spaces are beyond any cap) only for the flavours with
			// input finalizers; everything else by the slow actor
			switch c.Flavour {
			case "transform-fin", "qtransform", "qtransform-until", "qtransform-while", "cleanup-combined":
			default:
				if !strings.HasSuffix(c.Name, "/create-destroy") {
					continue
				}
			}
		}
		out = append(out, explore.Scenario{
			Name:     c.Name,
			Desc:     fmt.Sprintf("real runtime + real %s controller (A -> B), external actor script %v, first %d transform invocations fail; free switches at every external operation and inside the pipeline", c.Flavour, c.Script, c.FailFirst),
			Bounds:   c.Bounds,
			MaxExecs: capFor(c, maxExecs, thorough),
			HB:       true,
			Body:     func(x *explore.X) { Body(c, prop, x) },
		})
	}
	return out
}
