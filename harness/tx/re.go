package tx

import "regexp"

type regexpT = regexp.Regexp

func compile(s string) *regexp.Regexp { return regexp.MustCompile(s) }
