// Harness C10: persistent store — acked writes survive crashes; memory never diverges.
package main

import (
	"bytes"
	"context"
	"errors"
	"fmt"
	"os"
	"path/filepath"
	"sort"
	"strings"
	"time"

	"go.etcd.io/bbolt"

	"github.com/cosi-project/runtime/pkg/controller/conformance"
	"github.com/cosi-project/runtime/pkg/resource"
	"github.com/cosi-project/runtime/pkg/state"
	"github.com/cosi-project/runtime/pkg/state/impl/inmem"
	"github.com/cosi-project/runtime/pkg/state/impl/store"
	"github.com/cosi-project/runtime/pkg/state/impl/store/bolt"
	"github.com/cosi-project/runtime/pkg/state/impl/store/compression"
	"github.com/cosi-project/runtime/pkg/state/impl/store/encryption"
	"verif.local/explore"
	"verif.local/harness/hx"
	"verif.local/harness/lb"
	"verif.local/harness/wx"
	"verif.local/vrt"
)

// ---------------------------------------------------------------- operations and full rendering

type opT struct {
	name string
	do   func(ctx context.Context, st state.State) error
}

func getInt(ctx context.Context, st state.State, id string) (*conformance.IntResource, error) {
	r, err := st.Get(ctx, hx.IntPtr(id))
	if err != nil {
		return nil, err
	}
	return r.(*conformance.IntResource), nil
}

func ops() []opT {
	upd := func(id string, f func(r *conformance.IntResource)) func(ctx context.Context, st state.State) error {
		return func(ctx context.Context, st state.State) error {
			r, err := getInt(ctx, st, id)
			if err != nil {
				return err
			}
			f(r)
			return st.Update(ctx, r, state.WithUpdateOwner(r.Metadata().Owner()), state.WithExpectedPhaseAny())
		}
	}
	return []opT{
		{"create a", func(ctx context.Context, st state.State) error {
			r := conformance.NewIntResource(hx.NS, "a", 1)
			r.Metadata().Labels().Set("l", "1")
			r.Metadata().Annotations().Set("note", strings.Repeat("x", 300))
			return st.Create(ctx, r, state.WithCreateOwner("owner1"))
		}},
		{"update a (value, label, finalizer)", upd("a", func(r *conformance.IntResource) {
			r.SetValue(r.Value() + 1)
			r.Metadata().Labels().Set("l", "2")
			r.Metadata().Finalizers().Add("fin")
		})},
		{"update a (phase, -finalizer)", upd("a", func(r *conformance.IntResource) {
			r.Metadata().SetPhase(resource.PhaseTearingDown)
			r.Metadata().Finalizers().Remove("fin")
		})},
		{"destroy a", func(ctx context.Context, st state.State) error {
			return st.Destroy(ctx, hx.IntPtr("a"), state.WithDestroyOwner("owner1"))
		}},
		{"create b", func(ctx context.Context, st state.State) error {
			return st.Create(ctx, conformance.NewIntResource(hx.NS, "b", 7))
		}},
		{"create s (other type)", func(ctx context.Context, st state.State) error {
			return st.Create(ctx, conformance.NewStrResource(hx.NS, "s", strings.Repeat("payload-", 1200))) // > 2 pages: multi-page write
		}},
		{"destroy b", func(ctx context.Context, st state.State) error {
			return st.Destroy(ctx, hx.IntPtr("b"))
		}},
		{"update a (freshly built object carrying only version and owner)", func(ctx context.Context, st state.State) error {
			cur, err := getInt(ctx, st, "a")
			if err != nil {
				return err
			}
			// a caller that does not round-trip the object it read: its own creation/update times are whatever
			// its constructor stamped, the store must keep the real creation time (also on disk)
			r := conformance.NewIntResource(hx.NS, "a", cur.Value()+10)
			r.Metadata().SetVersion(cur.Metadata().Version())
			r.Metadata().SetOwner(cur.Metadata().Owner()) //nolint:errcheck
			r.Metadata().SetPhase(cur.Metadata().Phase())
			for _, f := range *cur.Metadata().Finalizers() {
				r.Metadata().Finalizers().Add(f)
			}
			r.Metadata().SetCreated(time.Unix(1, 0))
			r.Metadata().Labels().Set("fresh", "1")
			return st.Update(ctx, r, state.WithUpdateOwner(cur.Metadata().Owner()), state.WithExpectedPhaseAny())
		}},
		// operations that must be rejected: a rejected operation changes neither the memory nor the disk
		{"destroy a while a finalizer is pending (rejected)", rejected(func(ctx context.Context, st state.State) error {
			return st.Destroy(ctx, hx.IntPtr("a"), state.WithDestroyOwner("owner1"))
		})},
		{"create a again (rejected)", rejected(func(ctx context.Context, st state.State) error {
			return st.Create(ctx, conformance.NewIntResource(hx.NS, "a", 99), state.WithCreateOwner("owner1"))
		})},
		{"destroy a with the wrong owner (rejected)", rejected(func(ctx context.Context, st state.State) error {
			return st.Destroy(ctx, hx.IntPtr("a"), state.WithDestroyOwner("somebody-else"))
		})},
		{"update a (nothing changed)", upd("a", func(*conformance.IntResource) {})},
	}
}

// rejected turns an operation that the store must refuse into a workload step: the step fails iff the operation
// was accepted.
func rejected(f func(ctx context.Context, st state.State) error) func(ctx context.Context, st state.State) error {
	return func(ctx context.Context, st state.State) error {
		if err := f(ctx, st); err == nil {
			return fmt.Errorf("the operation was accepted")
		}
		return nil
	}
}

func full(r resource.Resource) string {
	md := r.Metadata()
	ann := ""
	for _, k := range md.Annotations().Keys() {
		v, _ := md.Annotations().Get(k)
		ann += fmt.Sprintf("%s=%d:%s,", k, len(v), v[:min(len(v), 4)])
	}
	return fmt.Sprintf("%s annotations={%s} created=%d", hx.Snap(r), ann, md.Created().UnixNano())
}

func snapshot(ctx context.Context, st state.CoreState) (string, error) {
	var out []string
	for _, k := range []resource.Kind{hx.IntKind(), hx.StrKind()} {
		l, err := st.List(ctx, k)
		if err != nil {
			return "", err
		}
		for _, r := range l.Items {
			out = append(out, full(r))
		}
	}
	sort.Strings(out)
	return strings.Join(out, "; "), nil
}

// ---------------------------------------------------------------- marshaler stackings

var key32 = bytes.Repeat([]byte{5}, 32)

func marshalers() map[string]func() store.Marshaler {
	ciph := func() *encryption.Cipher {
		return encryption.NewCipher(encryption.KeyProviderFunc(func() ([]byte, error) { return key32, nil }))
	}
	pm := store.ProtobufMarshaler{}
	return map[string]func() store.Marshaler{
		"protobuf":      func() store.Marshaler { return pm },
		"zstd(min=0)":   func() store.Marshaler { return compression.NewMarshaler(pm, compression.ZStd(), 0) },
		"zstd(min=200)": func() store.Marshaler { return compression.NewMarshaler(pm, compression.ZStd(), 200) },
		"aes":           func() store.Marshaler { return encryption.NewMarshaler(pm, ciph()) },
		"zstd(aes)": func() store.Marshaler {
			return compression.NewMarshaler(encryption.NewMarshaler(pm, ciph()), compression.ZStd(), 0)
		},
		"aes(zstd(min=64))": func() store.Marshaler {
			return encryption.NewMarshaler(compression.NewMarshaler(pm, compression.ZStd(), 64), ciph())
		},
	}
}

// ---------------------------------------------------------------- crash images

type fileWrite struct {
	off    int64
	data   []byte
	before []byte // whole file content right before this write
}

func tmpDir() string {
	d := filepath.Join(explore.Root(), ".build", "tmp")
	os.MkdirAll(d, 0o755) //nolint:errcheck
	return d
}

func openState(path string, m store.Marshaler, hook func(db *bbolt.DB)) (*inmem.State, *bolt.BackingStore, error) {
	bs, err := bolt.NewBackingStore(func() (*bbolt.DB, error) {
		db, err := bbolt.Open(path, 0o600, &bbolt.Options{NoFreelistSync: false})
		if err == nil && hook != nil {
			hook(db)
		}
		return db, err
	}, m)
	if err != nil {
		return nil, nil, err
	}
	return inmem.NewStateWithOptions(inmem.WithBackingStore(bs.WithNamespace(hx.NS)))(hx.NS), bs, nil
}

func crashScenario(mname string, hist []int) explore.Scenario {
	all := ops()
	names := make([]string, len(hist))
	for i, h := range hist {
		names[i] = all[h].name
	}
	return explore.Scenario{
		Name:       fmt.Sprintf("crash/%s/%s", mname, strings.Join(names, ", ")),
		Desc:       fmt.Sprintf("history [%s] on inmem + real bbolt backing store with marshaler %s: the process is killed before every file write bbolt performs and inside every multi-page write at each page boundary; the file image is reopened with the real code and compared with the model of acknowledged operations, then a continuation is run", strings.Join(names, ", "), mname),
		Sequential: true,
		Body: func(x *explore.X) {
			lb.RegisterConformanceResources()
			ctx := context.Background()
			mk := marshalers()[mname]
			dir, err := os.MkdirTemp(tmpDir(), "c10-")
			if err != nil {
				panic(err)
			}
			defer os.RemoveAll(dir)
			path := filepath.Join(dir, "live.db")
			var writes []fileWrite
			st, bs, err := openState(path, mk(), func(db *bbolt.DB) {
				bbolt.VerifWrapWriteAt(db, func(orig func([]byte, int64) (int, error)) func([]byte, int64) (int, error) {
					return func(b []byte, off int64) (int, error) {
						before, err := os.ReadFile(path)
						if err != nil {
							panic(err)
						}
						writes = append(writes, fileWrite{off: off, data: bytes.Clone(b), before: before})
						return orig(b, off)
					}
				})
			})
			if err != nil {
				panic(err)
			}
			// reference: the same history on a plain in-memory state (never restarted), snapshot after each op
			refSnaps := []string{""}
			ref := state.WrapCore(inmem.NewState(hx.NS))
			wst := state.WrapCore(st)
			var acks []int // acks[i] = number of file writes issued when op i returned
			for _, h := range hist {
				if err := all[h].do(ctx, wst); err != nil {
					x.FailKey("crash/workload", "workload op %q failed: %v", all[h].name, err)
					return
				}
				acks = append(acks, len(writes))
				if err := all[h].do(ctx, ref); err != nil {
					panic(err)
				}
				s, _ := snapshotNoTime(ctx, ref)
				refSnaps = append(refSnaps, s)
			}
			finalFile, _ := os.ReadFile(path)
			bs.Close() //nolint:errcheck
			// crash points
			type image struct {
				desc string
				data []byte
				k    int // number of completed writes
			}
			var images []image
			for k, w := range writes {
				images = append(images, image{fmt.Sprintf("killed before file write %d of %d (offset %d, %d bytes)", k, len(writes), w.off, len(w.data)), w.before, k})
				const page = 4096
				for cut := page; cut < len(w.data); cut += page {
					img := bytes.Clone(w.before)
					if need := int(w.off) + cut; need > len(img) {
						img = append(img, make([]byte, need-len(img))...)
					}
					copy(img[w.off:], w.data[:cut])
					images = append(images, image{fmt.Sprintf("killed inside file write %d after %d of %d bytes", k, cut, len(w.data)), img, k})
				}
			}
			images = append(images, image{"killed after the last write", finalFile, len(writes)})
			checked := 0
			for ii, im := range images {
				acked := 0
				for _, a := range acks {
					if a <= im.k {
						acked++
					}
				}
				ipath := filepath.Join(dir, fmt.Sprintf("img%d.db", ii))
				if err := os.WriteFile(ipath, im.data, 0o600); err != nil {
					panic(err)
				}
				rst, rbs, err := openState(ipath, mk(), nil)
				if err != nil {
					x.FailKey("crash/reopen", "%s: cannot reopen the database: %v", im.desc, err)
					continue
				}
				got, err := snapshotNoTime(ctx, rst)
				if err != nil {
					x.FailKey("crash/load", "%s: loading the reopened store failed: %v", im.desc, err)
					rbs.Close() //nolint:errcheck
					continue
				}
				match := -1
				for m := acked; m <= len(hist) && m <= acked+1; m++ {
					if refSnaps[m] == got {
						match = m
					}
				}
				if match < 0 {
					x.FailKey("crash/state", "%s (%d of %d operations acknowledged): reopened state {%s} is not the state after %d or %d operations: {%s} / {%s}", im.desc, acked, len(hist), got, acked, acked+1, refSnaps[acked], refSnaps[min(acked+1, len(hist))])
					rbs.Close() //nolint:errcheck
					continue
				}
				// creation times survive: compare with the live run's objects for resources created before
				// continuation: behaves like a never-restarted state that executed `match` operations
				twin := state.WrapCore(inmem.NewState(hx.NS))
				for _, h := range hist[:match] {
					all[h].do(ctx, twin) //nolint:errcheck
				}
				rw := state.WrapCore(rst)
				for ci, c := range continuation() {
					e1, e2 := c.do(ctx, rw), c.do(ctx, twin)
					if hx.ErrClass(e1) != hx.ErrClass(e2) && !(e1 != nil && e2 != nil) {
						x.FailKey("crash/continuation", "%s: continuation step %d (%s) returns %v after the restart but %v on a state that never restarted", im.desc, ci, c.name, e1, e2)
					}
				}
				s1, _ := snapshotNoTime(ctx, rst)
				s2, _ := snapshotNoTime(ctx, twin)
				if s1 != s2 {
					x.FailKey("crash/continuation", "%s: after the continuation the restarted state is {%s}, a never-restarted state is {%s}", im.desc, s1, s2)
				}
				rbs.Close() //nolint:errcheck
				os.Remove(ipath)
				checked++
			}
			// creation time and every field intact on a clean reopen
			cst, cbs, err := openState(path, mk(), nil)
			if err == nil {
				// compare with what the live state held (incl. created time)
				live, _ := snapshot(ctx, st)
				re, _ := snapshot(ctx, cst)
				if live != re {
					x.FailKey("crash/fields", "clean reopen differs from the live state (creation time or another field lost): live {%s}, reopened {%s}", live, re)
				}
				cbs.Close() //nolint:errcheck
			}
			x.Add("states", len(images))
			x.Add("transitions", len(writes))
			x.Add("evaluations", checked)
			x.Add("distinct_nontrivial", len(images))
			x.Add("traces_validated_against_impl", checked)
			x.Sample(map[string]any{"history": names, "marshaler": mname, "file_writes": len(writes), "crash_images": len(images), "acks_at_write": acks})
			x.Outcome("writes=%d images=%d", len(writes), len(images))
		},
	}
}

func snapshotNoTime(ctx context.Context, st state.CoreState) (string, error) {
	var out []string
	for _, k := range []resource.Kind{hx.IntKind(), hx.StrKind()} {
		l, err := st.List(ctx, k)
		if err != nil {
			return "", err
		}
		for _, r := range l.Items {
			md := r.Metadata()
			ann := ""
			for _, key := range md.Annotations().Keys() {
				v, _ := md.Annotations().Get(key)
				ann += fmt.Sprintf("%s=%d,", key, len(v))
			}
			out = append(out, hx.Snap(r)+" annotations={"+ann+"}")
		}
	}
	sort.Strings(out)
	return strings.Join(out, "; "), nil
}

func continuation() []opT {
	all := ops()
	return []opT{all[1], {"create c", func(ctx context.Context, st state.State) error {
		return st.Create(ctx, conformance.NewIntResource(hx.NS, "c", 3))
	}}, all[0], all[4], all[3]}
}

// ---------------------------------------------------------------- fault positions

type faulty struct {
	hx.Log
	n      int
	failAt int
	failN  int
	fails  int
}

var errInjected = errors.New("injected backing store failure")

func (f *faulty) hit() bool {
	f.n++
	if f.n-1 >= f.failAt && f.n-1 < f.failAt+f.failN {
		f.fails++
		return true
	}
	return false
}

func (f *faulty) Put(ctx context.Context, t resource.Type, r resource.Resource) error {
	if f.hit() {
		return errInjected
	}
	return f.Log.Put(ctx, t, r)
}

func (f *faulty) Destroy(ctx context.Context, t resource.Type, p resource.Pointer) error {
	if f.hit() {
		return errInjected
	}
	return f.Log.Destroy(ctx, t, p)
}

type recorder struct {
	got []wx.Ev
}

func faultScenario() explore.Scenario {
	return explore.Scenario{
		Name:       "faults/put-destroy-positions",
		Desc:       "history of 6 operations on inmem with a backing store that rejects the i-th Put/Destroy (every i, one and two consecutive failures), with a kind watcher and a resource watcher attached: the operation fails, the snapshot and both watcher streams are unchanged, the retry succeeds and the final state and streams equal the fault-free run",
		Sequential: true,
		Body: func(x *explore.X) {
			hist := []int{0, 1, 4, 2, 3, 4}
			all := ops()
			run := func(failAt, failN int) (final string, kind, byid []wx.Ev, steps int) {
				res := vrt.Run(nil, vrt.Options{}, func() {
					ctx, cancel := context.WithCancel(context.Background())
					f := &faulty{failAt: failAt, failN: failN}
					core := inmem.NewStateWithOptions(inmem.WithBackingStore(f))(hx.NS)
					st := state.WrapCore(core)
					kw, iw := &recorder{}, &recorder{}
					kch, ich := make(chan state.Event), make(chan state.Event)
					if err := st.WatchKind(ctx, hx.IntKind(), kch); err != nil {
						panic(err)
					}
					if err := st.Watch(ctx, hx.IntPtr("a"), ich); err != nil {
						panic(err)
					}
					for _, p := range []struct {
						ch chan state.Event
						r  *recorder
					}{{kch, kw}, {ich, iw}} {
						vrt.Go(func() {
							for {
								rc := vrt.RecvCase((<-chan state.Event)(p.ch))
								if vrt.Select(false, vrt.RecvCase(ctx.Done()), rc) == 0 {
									return
								}
								p.r.got = append(p.r.got, wx.Render(rc.Value))
							}
						})
					}
					vrt.WaitQuiescent()
					for hi, h := range hist {
						for attempt := 0; attempt < 4; attempt++ {
							before, _ := snapshot(ctx, core)
							nk, ni := len(kw.got), len(iw.got)
							failsBefore := f.fails
							err := all[h].do(ctx, st)
							vrt.WaitQuiescent()
							if f.fails == failsBefore {
								if err != nil && !(hi == 5 && state.IsConflictError(err)) {
									x.FailKey("faults/unexpected", "fail@%d x%d: op %d (%s) failed without an injected fault: %v", failAt, failN, hi, all[h].name, err)
								}
								break
							}
							// a fault was injected during this attempt
							if err == nil {
								x.FailKey("faults/acked", "fail@%d x%d: op %d (%s) reported success although the backing store rejected the write", failAt, failN, hi, all[h].name)
							}
							after, _ := snapshot(ctx, core)
							if after != before {
								x.FailKey("faults/memory", "fail@%d x%d: op %d (%s): the backing store rejected the write but the in-memory contents changed: {%s} -> {%s}", failAt, failN, hi, all[h].name, before, after)
							}
							if len(kw.got) != nk || len(iw.got) != ni {
								x.FailKey("faults/watch", "fail@%d x%d: op %d (%s): a watcher observed the rejected write: %v / %v", failAt, failN, hi, all[h].name, kw.got[nk:], iw.got[ni:])
							}
						}
					}
					final, _ = snapshotNoTime(ctx, core)
					// memory == what the store acknowledged
					folded := f.Log.StateAt(f.Log.Len())
					var fs []string
					for _, r := range folded {
						if r.Metadata().Type() == conformance.IntResourceType {
							fs = append(fs, hx.Snap(r))
						}
					}
					sort.Strings(fs)
					l, _ := core.List(ctx, hx.IntKind())
					if hx.SnapList(l) != strings.Join(fs, "; ") {
						x.FailKey("faults/diverged", "fail@%d x%d: memory {%s} diverged from the backing store {%s}", failAt, failN, hx.SnapList(l), strings.Join(fs, "; "))
					}
					kind, byid = kw.got, iw.got
					cancel()
					vrt.WaitQuiescent()
				})
				for _, p := range res.Panics {
					x.FailKey("faults/panic", "fail@%d x%d: %s", failAt, failN, p)
				}
				return final, kind, byid, res.Steps
			}
			wantFinal, wantKind, wantID, _ := run(1000, 0)
			n, steps := 0, 0
			for failN := 1; failN <= 2; failN++ {
				for failAt := 0; failAt < 8; failAt++ {
					final, kind, byid, st := run(failAt, failN)
					steps += st
					n++
					if final != wantFinal {
						x.FailKey("faults/final", "fail@%d x%d: final state {%s}, fault-free run {%s}", failAt, failN, final, wantFinal)
					}
					if fmt.Sprint(kind) != fmt.Sprint(wantKind) || fmt.Sprint(byid) != fmt.Sprint(wantID) {
						x.FailKey("faults/streams", "fail@%d x%d: watcher streams differ from the fault-free run: %v vs %v", failAt, failN, kind, wantKind)
					}
				}
			}
			x.Add("states", n)
			x.Add("transitions", steps)
			x.Add("evaluations", n)
			x.Add("distinct_nontrivial", n)
			x.Add("traces_validated_against_impl", n)
			x.Outcome("fault positions=%d", n)
		},
	}
}

// failing Load: fails after delivering k resources, then succeeds
type flakyLoad struct {
	inmem.BackingStore
	failAfter int
	failed    bool
}

func (f *flakyLoad) Load(ctx context.Context, h inmem.LoadHandler) error {
	if f.failed {
		return f.BackingStore.Load(ctx, h)
	}
	n := 0
	err := f.BackingStore.Load(ctx, func(t resource.Type, r resource.Resource) error {
		if n == f.failAfter {
			return errInjected
		}
		n++
		return h(t, r)
	})
	f.failed = true
	if err == nil {
		return nil
	}
	return err
}

func loadScenario() explore.Scenario {
	return explore.Scenario{
		Name:       "faults/load-positions",
		Desc:       "a bbolt store holding 3 resources is loaded by a fresh state whose first Load fails after k = 0..3 resources: the failing operation reports the error, the retry succeeds and the contents equal the stored ones",
		Sequential: true,
		Body: func(x *explore.X) {
			lb.RegisterConformanceResources()
			ctx := context.Background()
			dir, _ := os.MkdirTemp(tmpDir(), "c10l-")
			defer os.RemoveAll(dir)
			path := filepath.Join(dir, "l.db")
			st, bs, err := openState(path, store.ProtobufMarshaler{}, nil)
			if err != nil {
				panic(err)
			}
			w := state.WrapCore(st)
			for _, h := range []int{0, 4, 5} {
				if err := ops()[h].do(ctx, w); err != nil {
					panic(err)
				}
			}
			want, _ := snapshot(ctx, st)
			bs.Close() //nolint:errcheck
			dups := 0
			for k := 0; k <= 3; k++ {
				nbs, err := bolt.NewBackingStore(func() (*bbolt.DB, error) { return bbolt.Open(path, 0o600, nil) }, store.ProtobufMarshaler{})
				if err != nil {
					panic(err)
				}
				fl := &flakyLoad{BackingStore: nbs.WithNamespace(hx.NS), failAfter: k}
				s2 := inmem.NewStateWithOptions(inmem.WithBackingStore(fl))(hx.NS)
				_, err1 := s2.List(ctx, hx.IntKind())
				if k < 3 && err1 == nil {
					x.FailKey("load/swallowed", "Load failed after %d resources but the first operation reported success", k)
				}
				got, err2 := snapshot(ctx, s2)
				if err2 != nil || got != want {
					x.FailKey("load/contents", "after a Load that failed after %d resources and a retry: contents {%s} (err %v), stored {%s}", k, got, err2, want)
				}
				// informational: history of a kind watch with tail after the retried load
				vrt.Run(nil, vrt.Options{}, func() {
					wctx, cancel := context.WithCancel(ctx)
					ch := make(chan state.Event)
					seen := map[string]int{}
					if err := s2.WatchKind(wctx, hx.IntKind(), ch, state.WithKindTailEvents(10)); err == nil {
						vrt.Go(func() {
							for {
								rc := vrt.RecvCase((<-chan state.Event)(ch))
								if vrt.Select(false, vrt.RecvCase(wctx.Done()), rc) == 0 {
									return
								}
								if rc.Value.Resource != nil {
									seen[rc.Value.Resource.Metadata().ID()]++
								}
							}
						})
						vrt.WaitQuiescent()
					}
					for _, c := range seen {
						if c > 1 {
							dups++
						}
					}
					cancel()
					vrt.WaitQuiescent()
				})
				nbs.Close() //nolint:errcheck
			}
			x.Add("states", 4)
			x.Add("transitions", 4)
			x.Add("evaluations", 4)
			x.Add("distinct_nontrivial", 4)
			x.Add("traces_validated_against_impl", 4)
			x.Add("informational_duplicate_history_entries_after_retried_load", dups)
			x.Outcome("load positions=4")
		},
	}
}

// ---------------------------------------------------------------- reopened store: concurrent first use

// preloaded is a backing store that already holds resources (a "reopened" store); Load hands them over
// one by one with a scheduling point in between, Put/Destroy are recorded.
type preloaded struct {
	hx.Log
	content []resource.Resource
}

func (p *preloaded) Load(_ context.Context, h inmem.LoadHandler) error {
	for _, r := range p.content {
		vrt.Yield()
		if err := h(r.Metadata().Type(), r.DeepCopy()); err != nil {
			return err
		}
	}
	return nil
}

var firstUseOps = []string{"get a", "get b", "list", "create a", "update b", "destroy a"}

func firstUse(ctx context.Context, st state.State, op string) string {
	switch op {
	case "get a", "get b":
		r, err := st.Get(ctx, hx.IntPtr(strings.TrimPrefix(op, "get ")))
		if err != nil {
			return hx.ErrClass(err)
		}
		return hx.Snap(r)
	case "list":
		l, err := st.List(ctx, hx.IntKind())
		if err != nil {
			return hx.ErrClass(err)
		}
		return hx.SnapList(l)
	case "create a":
		return hx.ErrClass(st.Create(ctx, conformance.NewIntResource(hx.NS, "a", 100)))
	case "update b":
		_, err := st.UpdateWithConflicts(ctx, hx.IntPtr("b"), func(r resource.Resource) error {
			r.(*conformance.IntResource).SetValue(r.(*conformance.IntResource).Value() + 1)
			return nil
		})
		return hx.ErrClass(err)
	case "destroy a":
		return hx.ErrClass(st.Destroy(ctx, hx.IntPtr("a")))
	}
	panic(op)
}

func stored() []resource.Resource {
	mk := func(id string, v, ver int) resource.Resource {
		r := conformance.NewIntResource(hx.NS, id, v)
		vv, _ := resource.ParseVersion(fmt.Sprint(ver))
		r.Metadata().SetVersion(vv)
		return r
	}
	return []resource.Resource{mk("a", 1, 3), mk("b", 2, 5), mk("c", 3, 1)}
}

func firstUseScenario(a, b string, bounds []int) explore.Scenario {
	return explore.Scenario{
		Name:   fmt.Sprintf("reopen/concurrent-first-use/%s || %s", a, b),
		Desc:   fmt.Sprintf("a reopened state whose backing store holds 3 acknowledged resources is first used by two goroutines at once (%s, %s) while the lazy load is in progress: every schedule; each operation must behave as on a fully loaded state in one of the two orders (no not-found for an acknowledged resource, no re-creation of a persisted id)", a, b),
		Bounds: bounds,
		Body: func(x *explore.X) {
			ctx := context.Background()
			run := func(order []string, concurrent bool) ([]string, string) {
				ps := &preloaded{content: stored()}
				core := inmem.NewStateWithOptions(inmem.WithBackingStore(ps))(hx.NS)
				st := state.WrapCore(core)
				res := make([]string, len(order))
				if concurrent {
					for i, op := range order {
						vrt.GoNamed("user:"+op, func() { res[i] = firstUse(ctx, st, op) })
					}
					vrt.WaitQuiescent()
				} else {
					for i, op := range order {
						res[i] = firstUse(ctx, st, op)
					}
				}
				l, _ := core.List(ctx, hx.IntKind())
				return res, hx.SnapList(l)
			}
			vrt.Branching(false)
			r1, f1 := run([]string{a, b}, false)
			r2, f2 := run([]string{b, a}, false)
			vrt.Branching(true)
			got, fg := run([]string{a, b}, true)
			okAB := got[0] == r1[0] && got[1] == r1[1] && fg == f1
			okBA := got[0] == r2[1] && got[1] == r2[0] && fg == f2
			if !okAB && !okBA {
				x.Failf("first use of a reopened store raced with the lazy load: %q -> %q, %q -> %q, final {%s}; sequentially: (%s then %s) gives %q %q {%s}, (%s then %s) gives %q %q {%s}", a, got[0], b, got[1], fg, a, b, r1[0], r1[1], f1, b, a, r2[1], r2[0], f2)
			}
			x.Outcome("%s|%s", got[0], got[1])
		},
	}
}

// ---------------------------------------------------------------- writers in two namespaces sharing one store

// slowMarshaler lets time pass between producing a record and handing it to the store (a writer waiting for
// bbolt's single write transaction): whatever another writer marshals meanwhile must not reach this record.
type slowMarshaler struct{ store.Marshaler }

func (m slowMarshaler) MarshalResource(r resource.Resource) ([]byte, error) {
	b, err := m.Marshaler.MarshalResource(r)
	vrt.Yield()
	return b, err
}

func sharedStoreScenario(mname string, bounds []int) explore.Scenario {
	return explore.Scenario{
		Name:   "shared-store/" + mname,
		Desc:   "two writers in two namespaces of one bbolt store (marshaler " + mname + ", marshal-then-wait-for-the-transaction as a free switch) create and update concurrently; all schedules: after close and reopen every namespace holds exactly what was acknowledged",
		Bounds: bounds,
		Body: func(x *explore.X) {
			lb.RegisterConformanceResources()
			ctx := context.Background()
			vrt.Branching(false)
			dir, _ := os.MkdirTemp(tmpDir(), "c10s-")
			defer os.RemoveAll(dir)
			path := filepath.Join(dir, "s.db")
			mk := marshalers()[mname]
			shared := mk() // one marshaler instance for the whole store, as an application builds it
			bs, err := bolt.NewBackingStore(func() (*bbolt.DB, error) { return bbolt.Open(path, 0o600, nil) }, slowMarshaler{shared})
			if err != nil {
				panic(err)
			}
			nss := []string{"nsA", "nsB"}
			sts := map[string]*inmem.State{}
			for _, ns := range nss {
				sts[ns] = inmem.NewStateWithOptions(inmem.WithBackingStore(bs.WithNamespace(ns)))(ns)
			}
			acked := map[string]string{}
			vrt.Branching(true)
			for i, ns := range nss {
				vrt.GoNamed("writer:"+ns, func() {
					w := state.WrapCore(sts[ns])
					r := conformance.NewStrResource(ns, "r", strings.Repeat(string(rune('a'+i)), 40+30*i))
					if err := w.Create(ctx, r); err != nil {
						x.Failf("create in %s: %v", ns, err)
						return
					}
					if _, err := w.UpdateWithConflicts(ctx, r.Metadata(), func(x resource.Resource) error {
						x.Metadata().Labels().Set("who", ns)
						return nil
					}); err != nil {
						x.Failf("update in %s: %v", ns, err)
					}
				})
			}
			vrt.WaitQuiescent()
			vrt.Branching(false)
			for _, ns := range nss {
				l, err := sts[ns].List(ctx, resource.NewMetadata(ns, conformance.StrResourceType, "", resource.VersionUndefined))
				if err != nil {
					panic(err)
				}
				acked[ns] = hx.SnapList(l)
			}
			bs.Close() //nolint:errcheck
			nbs, err := bolt.NewBackingStore(func() (*bbolt.DB, error) { return bbolt.Open(path, 0o600, nil) }, mk())
			if err != nil {
				panic(err)
			}
			defer nbs.Close() //nolint:errcheck
			for _, ns := range nss {
				s2 := inmem.NewStateWithOptions(inmem.WithBackingStore(nbs.WithNamespace(ns)))(ns)
				l, err := s2.List(ctx, resource.NewMetadata(ns, conformance.StrResourceType, "", resource.VersionUndefined))
				if err != nil {
					x.FailKey("shared-store/reload", "marshaler %s: namespace %s cannot be loaded after a restart: %v (acknowledged contents {%s})", mname, ns, err, acked[ns])
					continue
				}
				if got := hx.SnapList(l); got != acked[ns] {
					x.FailKey("shared-store/contents", "marshaler %s: namespace %s holds {%s} after a restart, acknowledged was {%s}", mname, ns, got, acked[ns])
				}
			}
			x.Outcome("ok")
		},
	}
}

func build(tier string) []explore.Scenario {
	var out []explore.Scenario
	fb := []int{0, 1}
	if tier == "thorough" {
		fb = []int{0, 1, 2, -1}
	}
	for i, a := range firstUseOps {
		for _, b := range firstUseOps[i:] {
			out = append(out, firstUseScenario(a, b, fb))
		}
	}
	hists := [][]int{{0, 1, 2, 3}, {0, 4, 2, 3}, {4, 0, 3, 0}, {0, 1, 4, 5}, {5, 0, 2, 4}, {0, 3, 0, 1}, {0, 7, 1, 7}, {0, 4, 6, 1}, {4, 0, 6, 4}, {0, 1, 8, 4}, {0, 9, 10, 1}, {4, 0, 1, 8}, {0, 11, 11, 1}, {0, 1, 11, 4},
		// a type emptied while a type that sorts after it still holds resources (seed c10i: an empty per-type bucket ends the load)
		{0, 5, 3, 4}, {5, 4, 6, 0}}
	if tier == "thorough" {
		hists = nil
		var rec func(h []int)
		rec = func(h []int) {
			if len(h) > 0 {
				// only histories whose operations all succeed
				hists = append(hists, append([]int{}, h...))
			}
			if len(h) == 4 {
				return
			}
			for o := 0; o < 9; o++ {
				if valid(append(append([]int{}, h...), o)) {
					rec(append(h, o))
				}
			}
		}
		rec(nil)
		hists = append(hists, []int{0, 9, 10, 1}, []int{0, 1, 9, 10}, []int{4, 0, 10, 9}, []int{0, 11, 11, 1}, []int{0, 1, 11, 4}, []int{0, 11, 2, 11})
	}
	mnames := []string{"protobuf", "zstd(min=0)", "zstd(min=200)", "aes", "zstd(aes)", "aes(zstd(min=64))"}
	for hi, h := range hists {
		for mi, m := range mnames {
			if tier != "thorough" && mi != hi%len(mnames) && mi != 0 {
				continue
			}
			out = append(out, crashScenario(m, h))
		}
	}
	out = append(out, faultScenario(), loadScenario())
	for _, m := range []string{"zstd(min=0)", "zstd(aes)", "aes(zstd(min=64))", "protobuf"} {
		out = append(out, sharedStoreScenario(m, []int{0}))
	}
	return out
}

// valid reports whether every operation of h succeeds when run in order.
func valid(h []int) bool {
	a, aFin, aTD, b, s := false, false, false, false, false
	for _, o := range h {
		switch o {
		case 0:
			if a {
				return false
			}
			a, aFin, aTD = true, false, false
		case 1:
			if !a {
				return false
			}
			aFin = true
		case 2:
			if !a {
				return false
			}
			aFin, aTD = false, true
		case 3:
			if !a || aFin {
				return false
			}
			a = false
		case 4:
			if b {
				return false
			}
			b = true
		case 7, 9, 10, 11:
			if !a {
				return false
			}
		case 8:
			if !a || !aFin {
				return false
			}
		case 6:
			if !b {
				return false
			}
			b = false
		case 5:
			if s {
				return false
			}
			s = true
		}
	}
	_ = aTD
	return true
}

func main() {
	explore.Main(explore.Config{
		Property:     "C10",
		RequireShims: true,
		Level:        "fault_enumeration",
		Technique:    "exhaustive enumeration of crash images (before every file write of the real bbolt write path and at every page boundary inside multi-page writes) reopened with the real code and compared with the model of acknowledged operations; exhaustive enumeration of backing-store fault positions with watchers attached",
		Rule:         "crash: every write boundary and page-partial write of each history x marshaler stacking; faults: every Put/Destroy position x {1,2} consecutive failures, every Load position; non-trivial = distinct crash images / fault positions",
		Assume:       []string{"process crash: completed pwrite calls persist (power-loss reordering of unsynced blocks is outside the property)", "a crash while bbolt creates the empty database file precedes every operation of this repository and is out of scope", "a multi-page pwrite can be cut at 4096-byte boundaries"},
		Extra:        map[string]any{"explanation": "states = crash images / fault positions; transitions = file writes observed at bbolt's db.ops.writeAt seam"},
	}, build)
}
