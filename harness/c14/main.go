// Harness C14: selector-filtered lists/watches are exact views; one selector semantics everywhere.
package main

import (
	"context"
	"fmt"
	"regexp"
	"sort"
	"strconv"
	"strings"

	"github.com/cosi-project/runtime/pkg/controller/conformance"
	"github.com/cosi-project/runtime/pkg/controller/runtime"
	"github.com/cosi-project/runtime/pkg/controller/runtime/options"
	"github.com/cosi-project/runtime/pkg/resource"
	"github.com/cosi-project/runtime/pkg/state"
	"github.com/cosi-project/runtime/pkg/state/impl/inmem"
	"github.com/cosi-project/runtime/pkg/state/impl/namespaced"
	"github.com/cosi-project/runtime/pkg/state/protobuf/client"
	"github.com/cosi-project/runtime/pkg/state/protobuf/server"
	"verif.local/explore"
	"verif.local/harness/hx"
	"verif.local/harness/lb"
	"verif.local/vrt"
)

var values = []string{"", "1", "2", "10", "1Ki", "1k", " 3 ", "x", "-1"}

type lmap map[string]string

func allMaps() []lmap {
	out := []lmap{{}}
	for _, v := range values {
		out = append(out, lmap{"a": v}, lmap{"b": v})
	}
	for _, va := range values {
		for _, vb := range values {
			out = append(out, lmap{"a": va, "b": vb})
		}
	}
	return out
}

func toLabels(m lmap) resource.Labels {
	var l resource.Labels
	for k, v := range m {
		l.Set(k, v)
	}
	return l
}

// ---------------------------------------------------------------- independent evaluator

// parseNum is an independent reading of "numeric comparisons with unit suffixes" for the alphabet in use.
func parseNum(s string) (int64, bool) {
	s = strings.TrimSpace(s)
	mult := int64(1)
	switch {
	case strings.HasSuffix(s, "Ki"):
		mult, s = 1024, strings.TrimSuffix(s, "Ki")
	case strings.HasSuffix(s, "k"):
		mult, s = 1000, strings.TrimSuffix(s, "k")
	}
	n, err := strconv.ParseInt(s, 10, 64)
	if err != nil {
		return 0, false
	}
	return n * mult, true
}

// eval returns (defined, result-before-inversion).
func eval(t resource.LabelTerm, m lmap) (bool, bool) {
	v, has := m[t.Key]
	cmp := t.Op == resource.LabelOpLT || t.Op == resource.LabelOpLTE || t.Op == resource.LabelOpLTNumeric || t.Op == resource.LabelOpLTENumeric
	if t.Op == resource.LabelOpExists {
		return true, has
	}
	if !has {
		if cmp {
			return false, false // a comparison with a missing label is undefined
		}
		return true, false
	}
	if len(t.Value) == 0 {
		return true, false
	}
	switch t.Op {
	case resource.LabelOpEqual:
		return true, v == t.Value[0]
	case resource.LabelOpIn:
		for _, x := range t.Value {
			if x == v {
				return true, true
			}
		}
		return true, false
	case resource.LabelOpLT:
		return true, v < t.Value[0]
	case resource.LabelOpLTE:
		return true, v <= t.Value[0]
	case resource.LabelOpLTNumeric, resource.LabelOpLTENumeric:
		l, ok1 := parseNum(v)
		r, ok2 := parseNum(t.Value[0])
		if !ok1 || !ok2 {
			return false, false // non-numeric operands: undefined
		}
		if t.Op == resource.LabelOpLTNumeric {
			return true, l < r
		}
		return true, l <= r
	}
	panic("op")
}

func matchTerm(t resource.LabelTerm, m lmap) bool {
	def, r := eval(t, m)
	if !def {
		return false
	}
	if t.Invert {
		return !r
	}
	return r
}

func termString(t resource.LabelTerm) string {
	return fmt.Sprintf("{%s op%d %q inv=%v}", t.Key, t.Op, t.Value, t.Invert)
}

func allTerms(full bool) []resource.LabelTerm {
	var lists [][]string
	lists = append(lists, nil)
	vs := values
	if !full {
		vs = []string{"1", "10", "1Ki", "x"}
	}
	for _, v := range vs {
		lists = append(lists, []string{v})
	}
	if full {
		for _, v1 := range values {
			for _, v2 := range values {
				lists = append(lists, []string{v1, v2})
			}
		}
	}
	var out []resource.LabelTerm
	for _, k := range []string{"a", "b"} {
		for op := resource.LabelOpExists; op <= resource.LabelOpLTENumeric; op++ {
			for _, inv := range []bool{false, true} {
				for _, l := range lists {
					out = append(out, resource.LabelTerm{Key: k, Op: op, Value: l, Invert: inv})
				}
			}
		}
	}
	return out
}

// ---------------------------------------------------------------- the four evaluation sites

type sites struct {
	maps   []lmap
	ids    []string
	direct state.CoreState
	remote state.CoreState
	cache  *runtime.VerifCache
	kind   resource.Kind
}

func newSites() *sites {
	s := &sites{maps: allMaps(), kind: hx.IntKind()}
	ctx := context.Background()
	s.direct = namespaced.NewState(inmem.Build)
	backend := namespaced.NewState(inmem.Build)
	s.remote = client.NewAdapter(lb.New(server.NewState(backend)))
	s.cache = runtime.VerifNewCache([]options.CachedResource{{Namespace: hx.NS, Type: conformance.IntResourceType}})
	for i, m := range s.maps {
		id := fmt.Sprintf("r%03d", i)
		s.ids = append(s.ids, id)
		mk := func() resource.Resource {
			r := conformance.NewIntResource(hx.NS, id, i)
			for k, v := range m {
				r.Metadata().Labels().Set(k, v)
			}
			return r
		}
		if err := s.direct.Create(ctx, mk()); err != nil {
			panic(err)
		}
		if err := backend.Create(ctx, mk()); err != nil {
			panic(err)
		}
		s.cache.CacheAppend(mk())
	}
	s.cache.MarkBootstrapped(hx.NS, conformance.IntResourceType)
	return s
}

func idsOf(l resource.List) string {
	ids := make([]string, len(l.Items))
	for i, r := range l.Items {
		ids[i] = r.Metadata().ID()
	}
	sort.Strings(ids)
	return strings.Join(ids, ",")
}

// check evaluates queries (OR of AND-queries) at every site and against the independent evaluator.
func (s *sites) check(qs resource.LabelQueries, idq *regexp.Regexp, describe string) string {
	ctx := context.Background()
	var want []string
	for i, m := range s.maps {
		ok := len(qs) == 0
		for _, q := range qs {
			all := true
			for _, t := range q.Terms {
				if !matchTerm(t, m) {
					all = false
				}
			}
			if all {
				ok = true
			}
		}
		if ok && idq != nil && !idq.MatchString(s.ids[i]) {
			ok = false
		}
		if ok {
			want = append(want, s.ids[i])
		}
		// site 1: the pure function
		pure := qs.Matches(toLabels(m))
		if idq != nil && !idq.MatchString(s.ids[i]) {
			pure = false
		}
		if pure != ok {
			return fmt.Sprintf("%s on labels %v: LabelQueries.Matches = %v, documented semantics say %v", describe, m, pure, ok)
		}
	}
	wantS := strings.Join(want, ",")
	var opts []state.ListOption
	for _, q := range qs {
		opts = append(opts, state.WithLabelQuery(resource.RawLabelQuery(q)))
	}
	if idq != nil {
		opts = append(opts, state.WithIDQuery(resource.IDRegexpMatch(idq)))
	}
	for name, st := range map[string]interface {
		List(context.Context, resource.Kind, ...state.ListOption) (resource.List, error)
	}{"direct state List": s.direct, "runtime cache List": s.cache, "remote List (client -> wire -> server)": s.remote} {
		l, err := st.List(ctx, s.kind, opts...)
		if err != nil {
			return fmt.Sprintf("%s: %s failed: %v", describe, name, err)
		}
		if got := idsOf(l); got != wantS {
			return fmt.Sprintf("%s: %s returned [%s], the selector semantics give [%s]", describe, name, got, wantS)
		}
	}
	return ""
}

func algebraScenario(shard, nshards int, full bool) explore.Scenario {
	return explore.Scenario{
		Name:       fmt.Sprintf("algebra/shard%d-of-%d", shard, nshards),
		Desc:       "every label term (2 keys x 7 operators x invert x value lists of length 0,1,2 over 9 hostile values) and pairs of terms (AND within a query, OR across queries), plus ID regexps, evaluated on all 100 label maps by LabelQueries.Matches, direct inmem List, the runtime cache List and a remote List through the real wire translation; all must agree with an independent evaluator and the algebraic laws",
		Sequential: true,
		Body: func(x *explore.X) {
			s := newSites()
			terms := allTerms(true)
			n, evals := 0, 0
			fail := func(msg string) { x.FailKey("algebra", "%s", msg) }
			// single terms
			for i, t := range terms {
				if i%nshards != shard {
					continue
				}
				n++
				evals += len(s.maps) * 4
				if msg := s.check(resource.LabelQueries{{Terms: []resource.LabelTerm{t}}}, nil, "term "+termString(t)); msg != "" {
					fail(msg)
					return
				}
				// laws
				for _, m := range s.maps {
					l := toLabels(m)
					def, _ := eval(t, m)
					inv := t
					inv.Invert = !t.Invert
					a, b := l.Matches(t), l.Matches(inv)
					if def && a == b {
						fail(fmt.Sprintf("invert does not negate a defined result: %s on %v: %v / %v", termString(t), m, a, b))
						return
					}
					if !def && (a || b) {
						fail(fmt.Sprintf("undefined comparison matched: %s on %v", termString(t), m))
						return
					}
					if t.Op == resource.LabelOpIn && !t.Invert {
						any := false
						for _, v := range t.Value {
							if l.Matches(resource.LabelTerm{Key: t.Key, Op: resource.LabelOpEqual, Value: []string{v}}) {
								any = true
							}
						}
						if any != a {
							fail(fmt.Sprintf("In is not the OR of Equal: %s on %v", termString(t), m))
							return
						}
					}
				}
			}
			// pairs over a reduced term set: AND within a query, OR across queries
			small := allTerms(false)
			k := 0
			for i, t1 := range small {
				for j, t2 := range small {
					if j < i {
						continue
					}
					k++
					if k%nshards != shard || (!full && k%7 != 0) {
						continue
					}
					n += 2
					evals += len(s.maps) * 8
					if msg := s.check(resource.LabelQueries{{Terms: []resource.LabelTerm{t1, t2}}}, nil, "AND "+termString(t1)+termString(t2)); msg != "" {
						fail(msg)
						return
					}
					if msg := s.check(resource.LabelQueries{{Terms: []resource.LabelTerm{t1}}, {Terms: []resource.LabelTerm{t2}}}, nil, "OR "+termString(t1)+termString(t2)); msg != "" {
						fail(msg)
						return
					}
				}
			}
			// ID regexps, alone and combined
			if shard == 0 {
				// (unanchored pure literals match as substrings: "r01" selects r010..r019, "r050" one id, "0" most, "x" none)
				for _, re := range []string{"^r00", "5$", "r0[12]", ".*", "^$", "r01|r02", "r01", "r050", "0", "r", "x", "", "(?i)R01", "^r050$", "^r05", `r0\d5`, "r05.", `r\x30`} {
					n++
					if msg := s.check(nil, regexp.MustCompile(re), "id~"+re); msg != "" {
						fail(msg)
						return
					}
					if msg := s.check(resource.LabelQueries{{Terms: []resource.LabelTerm{{Key: "a", Op: resource.LabelOpExists}}}}, regexp.MustCompile(re), "a exists AND id~"+re); msg != "" {
						fail(msg)
						return
					}
				}
				x.Sample(map[string]any{"term": termString(terms[5]), "label_maps": len(s.maps), "sites": []string{"LabelQueries.Matches", "inmem List", "cache List", "remote List"}})
			}
			x.Add("states", n)
			x.Add("transitions", evals)
			x.Add("evaluations", evals)
			x.Add("distinct_nontrivial", n)
			x.Add("traces_validated_against_impl", evals)
			x.Outcome("queries=%d evaluations=%d", n, evals)
		},
	}
}

// ---------------------------------------------------------------- filtered views over histories

type step struct {
	id  string
	act string // set:<v> del destroy create
}

func (s step) String() string { return s.id + ":" + s.act }

func stepAlphabet() []step {
	var out []step
	for _, id := range []string{"a", "b"} {
		for _, a := range []string{"set:1", "set:2", "set:x", "del", "destroy", "create"} {
			out = append(out, step{id, a})
		}
	}
	return out
}

type selector struct {
	name string
	lq   [][]resource.LabelQueryOption
	idq  *regexp.Regexp
}

func selectors() []selector {
	return []selector{
		{name: "l exists", lq: [][]resource.LabelQueryOption{{resource.LabelExists("l")}}},
		{name: "l=1", lq: [][]resource.LabelQueryOption{{resource.LabelEqual("l", "1")}}},
		{name: "not l exists", lq: [][]resource.LabelQueryOption{{resource.LabelExists("l", resource.NotMatches)}}},
		{name: "l<2 numeric", lq: [][]resource.LabelQueryOption{{resource.LabelLTNumeric("l", "2")}}},
		{name: "not l<2 numeric", lq: [][]resource.LabelQueryOption{{resource.LabelLTNumeric("l", "2", resource.NotMatches)}}},
		{name: "l in {1,x}", lq: [][]resource.LabelQueryOption{{resource.LabelIn("l", []string{"1", "x"})}}},
		{name: "l=1 OR l=x", lq: [][]resource.LabelQueryOption{{resource.LabelEqual("l", "1")}, {resource.LabelEqual("l", "x")}}},
		{name: "id~^a", idq: regexp.MustCompile("^a")},
		{name: "l exists AND id~^b", lq: [][]resource.LabelQueryOption{{resource.LabelExists("l")}}, idq: regexp.MustCompile("^b")},
	}
}

func (s selector) listOpts() []state.ListOption {
	var o []state.ListOption
	for _, q := range s.lq {
		o = append(o, state.WithLabelQuery(q...))
	}
	if s.idq != nil {
		o = append(o, state.WithIDQuery(resource.IDRegexpMatch(s.idq)))
	}
	return o
}

func (s selector) watchOpts() []state.WatchKindOption {
	o := []state.WatchKindOption{state.WithBootstrapContents(true)}
	for _, q := range s.lq {
		o = append(o, state.WatchWithLabelQuery(q...))
	}
	if s.idq != nil {
		o = append(o, state.WatchWithIDQuery(resource.IDRegexpMatch(s.idq)))
	}
	return o
}

func (s selector) matches(r resource.Resource) bool {
	var qs resource.LabelQueries
	for _, q := range s.lq {
		var lq resource.LabelQuery
		for _, o := range q {
			o(&lq)
		}
		qs = append(qs, lq)
	}
	if s.idq != nil && !s.idq.MatchString(r.Metadata().ID()) {
		return false
	}
	return qs.Matches(*r.Metadata().Labels())
}

func doStep(ctx context.Context, st state.State, s step) {
	p := hx.IntPtr(s.id)
	switch {
	case s.act == "create":
		st.Create(ctx, conformance.NewIntResource(hx.NS, s.id, 1)) //nolint:errcheck
	case s.act == "destroy":
		st.Destroy(ctx, p) //nolint:errcheck
	case s.act == "del":
		st.UpdateWithConflicts(ctx, p, func(r resource.Resource) error { r.Metadata().Labels().Delete("l"); return nil }) //nolint:errcheck
	default:
		v := strings.TrimPrefix(s.act, "set:")
		st.UpdateWithConflicts(ctx, p, func(r resource.Resource) error { r.Metadata().Labels().Set("l", v); return nil }) //nolint:errcheck
	}
}

type replica struct {
	m       map[string]string
	illegal string
	booted  bool
}

func (rp *replica) apply(ev state.Event) {
	id := ""
	if ev.Resource != nil {
		id = ev.Resource.Metadata().ID()
	}
	switch ev.Type {
	case state.Created:
		if _, ok := rp.m[id]; ok && rp.booted {
			rp.illegal = "Created for a resource already in the view: " + id
		}
		rp.m[id] = hx.Snap(ev.Resource)
	case state.Updated:
		if _, ok := rp.m[id]; !ok {
			rp.illegal = "Updated for a resource not in the view: " + id
		}
		rp.m[id] = hx.Snap(ev.Resource)
	case state.Destroyed:
		if _, ok := rp.m[id]; !ok {
			rp.illegal = "Destroyed for a resource not in the view: " + id
		}
		delete(rp.m, id)
	case state.Bootstrapped:
		rp.booted = true
	case state.Errored:
		rp.illegal = "Errored: " + ev.Error.Error()
	}
}

func (rp *replica) String() string {
	ids := make([]string, 0, len(rp.m))
	for k := range rp.m {
		ids = append(ids, k)
	}
	sort.Strings(ids)
	out := make([]string, len(ids))
	for i, k := range ids {
		out[i] = rp.m[k]
	}
	return strings.Join(out, "; ")
}

func viewRun(x *explore.X, hist []step, remote bool) int {
	sels := selectors()
	res := vrt.Run(nil, vrt.Options{}, func() {
		ctx, cancel := context.WithCancel(context.Background())
		var core state.CoreState = namespaced.NewState(inmem.Build)
		if remote {
			core = client.NewAdapter(lb.New(server.NewState(core)))
		}
		st := state.WrapCore(core)
		st.Create(ctx, conformance.NewIntResource(hx.NS, "a", 1)) //nolint:errcheck
		// watchers: one per selector from the start, one per selector after the first step
		type wt struct {
			sel selector
			rp  *replica
			at  int
		}
		var ws []*wt
		startWatch := func(at int) {
			for _, sel := range sels {
				w := &wt{sel: sel, rp: &replica{m: map[string]string{}}, at: at}
				ws = append(ws, w)
				ch := make(chan state.Event)
				if err := st.WatchKind(ctx, hx.IntKind(), ch, sel.watchOpts()...); err != nil {
					x.FailKey("views/watch", "watch with selector %q failed: %v", sel.name, err)
					continue
				}
				vrt.Go(func() {
					for {
						rc := vrt.RecvCase((<-chan state.Event)(ch))
						if vrt.Select(false, vrt.RecvCase(ctx.Done()), rc) == 0 {
							return
						}
						w.rp.apply(rc.Value)
					}
				})
			}
		}
		startWatch(0)
		for i, s := range hist {
			doStep(ctx, st, s)
			if i == 0 {
				vrt.WaitQuiescent()
				startWatch(1)
			}
		}
		vrt.WaitQuiescent()
		all, err := st.List(ctx, hx.IntKind())
		if err != nil {
			panic(err)
		}
		for _, sel := range sels {
			var want []string
			for _, r := range all.Items {
				if sel.matches(r) {
					want = append(want, hx.Snap(r))
				}
			}
			wantS := strings.Join(want, "; ")
			l, err := st.List(ctx, hx.IntKind(), sel.listOpts()...)
			if err != nil || hx.SnapList(l) != wantS {
				x.FailKey("views/list", "after %v: List with selector %q = %q (err %v), brute-force filter of the full list = %q", hist, sel.name, hx.SnapList(l), err, wantS)
			}
			for _, w := range ws {
				if w.sel.name != sel.name {
					continue
				}
				if w.rp.illegal != "" {
					x.FailKey("views/watch", "after %v: watch (started at step %d) with selector %q: %s", hist, w.at, sel.name, w.rp.illegal)
				} else if got := w.rp.String(); got != wantS {
					x.FailKey("views/watch", "after %v: replaying the filtered watch (started at step %d, selector %q) gives %q, the filtered List is %q", hist, w.at, sel.name, got, wantS)
				}
			}
		}
		cancel()
		vrt.WaitQuiescent()
	})
	for _, p := range res.Panics {
		x.FailKey("views/panic", "after %v: %s", hist, p)
	}
	return res.Steps
}

func viewScenario(first step, depth int, remote bool) explore.Scenario {
	fl := "inmem"
	if remote {
		fl = "remote"
	}
	return explore.Scenario{
		Name:       fmt.Sprintf("views/%s/first=%v/len<=%d", fl, first, depth),
		Desc:       fmt.Sprintf("all histories of <= %d label/existence changes on two resources starting with %v (%s): for 9 selectors the filtered List must equal the brute-force filter of the unfiltered List, and replaying a selector-filtered kind watch (started before and after the first step) over its bootstrap must reproduce the filtered List with only legal Created/Updated/Destroyed transitions", depth, first, fl),
		Sequential: true,
		Body: func(x *explore.X) {
			alpha := stepAlphabet()
			n, steps := 0, 0
			var rec func(h []step)
			rec = func(h []step) {
				steps += viewRun(x, h, remote)
				n++
				if len(h) == depth || x.Failed() {
					return
				}
				for _, s := range alpha {
					rec(append(append([]step{}, h...), s))
				}
			}
			rec([]step{first})
			x.Add("states", n)
			x.Add("transitions", steps)
			x.Add("evaluations", n*len(selectors())*3)
			x.Add("distinct_nontrivial", n)
			x.Add("traces_validated_against_impl", n)
			x.Outcome("histories=%d", n)
		},
	}
}

func build(tier string) []explore.Scenario {
	var out []explore.Scenario
	full := tier == "thorough"
	ns := 8
	if full {
		ns = 16
	}
	for i := 0; i < ns; i++ {
		out = append(out, algebraScenario(i, ns, full))
	}
	depth := 3
	if full {
		depth = 4
	}
	for _, s := range stepAlphabet() {
		out = append(out, viewScenario(s, depth, false))
	}
	for _, s := range stepAlphabet()[:6] {
		out = append(out, viewScenario(s, depth-1, true))
	}
	return out
}

func main() {
	explore.Main(explore.Config{
		Property:     "C14",
		RequireShims: true,
		Technique:    "small-scope exhaustive enumeration of selector terms/queries x label maps at four evaluation sites against an independent evaluator and algebraic laws + exhaustive histories of label changes with filtered lists and watches replayed at exact quiescence on the controlled scheduler",
		Rule:         "algebra: every term (and a covering set of term pairs) x 100 label maps x 4 sites; views: every history up to the length x 9 selectors x watches started at two positions; non-trivial = distinct queries / histories",
		Assume:       []string{"values alphabet of 9 hostile strings, two keys", "views run the deterministic default schedule; interleavings of filtered watches are covered by C02's ring exploration"},
		Extra:        map[string]any{"explanation": "states = distinct queries / histories; transitions = (query, label map, site) evaluations and scheduler steps of the history runs"},
	}, build)
}
