// Package wx models watch streams: the exact event sequence a watch must deliver, derived from the commit log.
package wx

import (
	"bytes"
	"fmt"
	"sort"

	"github.com/cosi-project/runtime/pkg/resource"
	"github.com/cosi-project/runtime/pkg/state"
	"verif.local/harness/hx"
)

// Ev is a comparable rendering of an event.
type Ev struct {
	Type string
	Res  string
	Old  string
}

func (e Ev) String() string {
	if e.Old != "" {
		return fmt.Sprintf("%s(%s <- %s)", e.Type, e.Res, e.Old)
	}
	return fmt.Sprintf("%s(%s)", e.Type, e.Res)
}

// TombstoneAsResource renders tombstones like a value-less resource at version undefined: over the wire
// a tombstone is transported as an ordinary resource of its type, so tombstone-ness is not compared by C11.
var TombstoneAsResource bool

// Render converts a real event.
func Render(ev state.Event) Ev {
	out := Ev{Type: ev.Type.String()}
	switch ev.Type {
	case state.Errored:
		return Ev{Type: "Errored"}
	case state.Bootstrapped, state.Noop:
		return out
	}
	if ev.Resource != nil {
		if TombstoneAsResource && ev.Type == state.Destroyed && ev.Resource.Metadata().Version().String() == resource.VersionUndefined.String() {
			out.Res = fmt.Sprintf("%s/%s@undefined", ev.Resource.Metadata().Type(), ev.Resource.Metadata().ID())
		} else if _, tomb := ev.Resource.(*resource.Tombstone); tomb {
			out.Res = "tombstone:" + string(ev.Resource.Metadata().ID())
			if TombstoneAsResource {
				out.Res = fmt.Sprintf("%s/%s@undefined", ev.Resource.Metadata().Type(), ev.Resource.Metadata().ID())
			}
		} else {
			out.Res = hx.Snap(ev.Resource)
		}
	}
	if ev.Old != nil {
		out.Old = hx.Snap(ev.Old)
	}
	return out
}

// States returns per-id state maps M_0..M_n after k commits of commits (one type).
func States(commits []hx.Commit) []map[resource.ID]resource.Resource {
	out := make([]map[resource.ID]resource.Resource, 0, len(commits)+1)
	cur := map[resource.ID]resource.Resource{}
	out = append(out, cur)
	for _, c := range commits {
		nxt := make(map[resource.ID]resource.Resource, len(cur)+1)
		for k, v := range cur {
			nxt[k] = v
		}
		if c.Destroy {
			delete(nxt, c.ID)
		} else {
			nxt[c.ID] = c.Res
		}
		out = append(out, nxt)
		cur = nxt
	}
	return out
}

// EventOf is the event commit k (0-based) must produce.
func EventOf(states []map[resource.ID]resource.Resource, commits []hx.Commit, k int) Ev {
	c := commits[k]
	prev := states[k][c.ID]
	switch {
	case c.Destroy:
		return Ev{Type: "Destroyed", Res: hx.Snap(prev)}
	case prev == nil:
		return Ev{Type: "Created", Res: hx.Snap(c.Res)}
	default:
		return Ev{Type: "Updated", Res: hx.Snap(c.Res), Old: hx.Snap(prev)}
	}
}

// Flavour of a watch.
type Flavour int

// Watch flavours.
const (
	ByID Flavour = iota
	Kind
	KindAggregated
	KindBootstrap
	KindAggregatedBootstrap
	NFlavours
)

func (f Flavour) String() string {
	return [...]string{"watch-id", "watch-kind", "watch-kind-agg", "watch-kind-bootstrap", "watch-kind-agg-bootstrap"}[f]
}

// Expected is the full event sequence of a watch established after s commits.
// match (optional) filters resources for selector watches (kind flavours only).
func Expected(f Flavour, commits []hx.Commit, s int, id resource.ID) []Ev {
	states := States(commits)
	var out []Ev
	switch f {
	case ByID:
		if r := states[s][id]; r != nil {
			out = append(out, Ev{Type: "Created", Res: hx.Snap(r)})
		} else {
			out = append(out, Ev{Type: "Destroyed", Res: "tombstone:" + string(id)})
		}
	case KindBootstrap, KindAggregatedBootstrap:
		ids := make([]string, 0)
		for k := range states[s] {
			ids = append(ids, string(k))
		}
		sort.Strings(ids)
		for _, k := range ids {
			out = append(out, Ev{Type: "Created", Res: hx.Snap(states[s][resource.ID(k)])})
		}
		out = append(out, Ev{Type: "Bootstrapped"})
	}
	for k := s; k < len(commits); k++ {
		if f == ByID && commits[k].ID != id {
			continue
		}
		out = append(out, EventOf(states, commits, k))
	}
	return out
}

// Match checks delivered (already rendered, terminal Errored removed by the caller and reported via
// errored) against the expectation for some establishment point s in [lo,hi]. It returns the matching
// s or -1 and a description of the mismatch for the closest candidate.
func Match(f Flavour, commits []hx.Commit, lo, hi int, id resource.ID, delivered []Ev, errored bool) (int, string) {
	why := ""
	for s := lo; s <= hi && s <= len(commits); s++ {
		exp := Expected(f, commits, s, id)
		ok := len(delivered) <= len(exp)
		if ok {
			for i := range delivered {
				if delivered[i] != exp[i] {
					ok = false
					why = fmt.Sprintf("for start index %d: event %d is %v, expected %v", s, i, delivered[i], exp[i])
					break
				}
			}
		} else {
			why = fmt.Sprintf("for start index %d: %d events delivered but only %d exist (duplicate or invented event: %v)", s, len(delivered), len(exp), delivered[len(exp):])
		}
		if ok && !errored && len(delivered) != len(exp) {
			ok = false
			why = fmt.Sprintf("for start index %d: stream stopped after %d of %d events without an Errored event; missing %v", s, len(delivered), len(exp), exp[len(delivered):])
		}
		if ok {
			return s, ""
		}
	}
	return -1, why
}

// BookmarksIncreasing checks that bookmarks are 16 bytes and strictly increasing.
func BookmarksIncreasing(bms [][]byte) string {
	for i, b := range bms {
		if len(b) != 16 {
			return fmt.Sprintf("bookmark %d has length %d", i, len(b))
		}
		if i > 0 && bytes.Compare(bms[i-1], b) >= 0 {
			return fmt.Sprintf("bookmark %d (%x) is not greater than the previous one (%x)", i, b, bms[i-1])
		}
	}
	return ""
}
