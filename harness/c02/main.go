// Harness C02: watch streams are exact, ordered change logs (or fail loudly).
package main

import (
	"context"
	"fmt"

	"github.com/cosi-project/runtime/pkg/controller/conformance"
	"github.com/cosi-project/runtime/pkg/resource"
	"github.com/cosi-project/runtime/pkg/state"
	"github.com/cosi-project/runtime/pkg/state/impl/inmem"
	"verif.local/explore"
	"verif.local/harness/hx"
	"verif.local/harness/wx"
	"verif.local/vrt"
	"verif.local/vrt/vctx"
)

const typ = conformance.IntResourceType

type ringCfg struct{ initial, max, gap int }

func (c ringCfg) String() string { return fmt.Sprintf("cap%d-max%d-gap%d", c.initial, c.max, c.gap) }

// write i of the fixed script; hits create / update / destroy / re-create on two ids plus a foreign kind.
func write(ctx context.Context, st state.State, i int) error {
	get := func(id string) (*conformance.IntResource, error) {
		r, err := st.Get(ctx, hx.IntPtr(id))
		if err != nil {
			return nil, err
		}
		return r.(*conformance.IntResource), nil
	}
	upd := func(id string) error {
		r, err := get(id)
		if err != nil {
			return err
		}
		r.SetValue(r.Value() + 10)
		return st.Update(ctx, r)
	}
	switch i {
	case 0:
		return st.Create(ctx, conformance.NewIntResource(hx.NS, "a", 1))
	case 1:
		return upd("a")
	case 2:
		if err := st.Create(ctx, conformance.NewStrResource(hx.NS, "a", "other-kind")); err != nil { // must never leak
			return err
		}
		return st.Create(ctx, conformance.NewIntResource(hx.NS, "b", 2))
	case 3:
		return upd("a")
	case 4:
		return st.Destroy(ctx, hx.IntPtr("a"))
	case 5:
		return st.Create(ctx, conformance.NewIntResource(hx.NS, "a", 3))
	case 6:
		return upd("b")
	case 7:
		return upd("a")
	case 8:
		return st.Destroy(ctx, hx.IntPtr("b"))
	}
	panic("no such write")
}

type sub struct {
	f        wx.Flavour
	lo, hi   int // commits (of typ) before Watch was called / when it returned
	got      []wx.Ev
	bms      [][]byte
	errored  bool
	afterErr int
	received int // events fully received so far
	emptyAgg bool
	watchErr error
}

func (s *sub) run(ctx context.Context, st state.State, log *hx.Log) {
	kindMd := hx.IntKind()
	ch := make(chan state.Event)
	ach := make(chan []state.Event)
	vrt.Yield()
	s.lo = log.Count(typ)
	switch s.f {
	case wx.ByID:
		s.watchErr = st.Watch(ctx, hx.IntPtr("a"), ch)
	case wx.Kind:
		s.watchErr = st.WatchKind(ctx, kindMd, ch)
	case wx.KindBootstrap:
		s.watchErr = st.WatchKind(ctx, kindMd, ch, state.WithBootstrapContents(true))
	case wx.KindAggregated:
		s.watchErr = st.WatchKindAggregated(ctx, kindMd, ach)
	case wx.KindAggregatedBootstrap:
		s.watchErr = st.WatchKindAggregated(ctx, kindMd, ach, state.WithBootstrapContents(true))
	}
	s.hi = log.Count(typ)
	if s.watchErr != nil {
		return
	}
	take := func(ev state.Event) {
		vrt.TouchKey("c02.received", true) // the writer samples every subscriber's progress
		if s.errored {
			s.afterErr++
			return
		}
		if ev.Type == state.Errored {
			s.errored = true
			return
		}
		s.got = append(s.got, wx.Render(ev))
		if ev.Type == state.Created || ev.Type == state.Updated || ev.Type == state.Destroyed {
			if ev.Bookmark != nil {
				s.bms = append(s.bms, ev.Bookmark)
			}
		}
		s.received++
	}
	for {
		vrt.Yield() // consumer speed: the scheduler may let any number of writes happen here for free
		rc, ra := vrt.RecvCase((<-chan state.Event)(ch)), vrt.RecvCase((<-chan []state.Event)(ach))
		switch vrt.Select(false, vrt.RecvCase(ctx.Done()), rc, ra) {
		case 0:
			return
		case 1:
			take(rc.Value)
		case 2:
			if len(ra.Value) == 0 {
				s.emptyAgg = true
			}
			for _, ev := range ra.Value {
				take(ev)
			}
		}
	}
}

func scenario(cfg ringCfg, flavours []wx.Flavour, writes int, bounds []int) explore.Scenario {
	return scenarioP(cfg, flavours, writes, bounds, false)
}

// scenarioP with preloaded: the backing store already holds two resources (ids p, q) when the state is built, so
// the first operation of each actor - the subscriber's Watch, the writer's first write - races for the initial load.
func scenarioP(cfg ringCfg, flavours []wx.Flavour, writes int, bounds []int, preloaded bool) explore.Scenario {
	name := fmt.Sprintf("%v/w%d", cfg, writes)
	for _, f := range flavours {
		name += "/" + f.String()
	}
	desc := fmt.Sprintf("one writer running %d scripted writes over ids a,b (create/update/destroy/re-create + a foreign kind) against %d subscriber(s) %v; history initial capacity %d, max %d, gap %d", writes, len(flavours), flavours, cfg.initial, cfg.max, cfg.gap)
	if preloaded {
		name += "/preloaded-store"
		desc += "; the backing store holds two resources before the state is built, loaded by whichever operation comes first"
	}
	return explore.Scenario{
		Name:   name,
		Desc:   desc,
		Bounds: bounds,
		HB:     true,
		Body: func(x *explore.X) {
			ctx, cancel := vctx.WithCancel(context.Background())
			log := &hx.Log{}
			if preloaded {
				for _, id := range []string{"p", "q"} {
					r := conformance.NewIntResource(hx.NS, id, 5)
					r.Metadata().SetVersion(r.Metadata().Version().Next())
					log.Preload = append(log.Preload, r)
				}
			}
			st := state.WrapCore(hx.NewInmem(log, inmem.WithHistoryInitialCapacity(cfg.initial), inmem.WithHistoryMaxCapacity(cfg.max), inmem.WithHistoryGap(cfg.gap)))
			subs := make([]*sub, len(flavours))
			for i, f := range flavours {
				s := &sub{f: f}
				subs[i] = s
				vrt.GoNamed("sub:"+f.String(), func() { s.run(ctx, st, log) })
			}
			// lagAt[k][i]: events subscriber i had fully received when the k-th commit (of typ) was about to start
			var lagAt [][]int
			for i := 0; i < writes; i++ {
				vrt.Yield()
				row := make([]int, len(subs))
				vrt.TouchKey("c02.received", false)
				for j, s := range subs {
					row[j] = s.received
				}
				lagAt = append(lagAt, row)
				if err := write(ctx, st, i); err != nil {
					x.Failf("write %d failed: %v", i, err)
					return
				}
			}
			vrt.WaitQuiescent()
			commits := log.OfType(typ)
			for j, s := range subs {
				who := fmt.Sprintf("subscriber %d (%v)", j, s.f)
				if s.watchErr != nil {
					x.Failf("%s: watch failed: %v", who, s.watchErr)
					continue
				}
				start, why := wx.Match(s.f, commits, s.lo, s.hi, "a", s.got, s.errored)
				if start < 0 {
					x.Failf("%s: delivered stream is not the commit log from any start index in [%d,%d]: %s", who, s.lo, s.hi, why)
					continue
				}
				if s.afterErr > 0 {
					x.Failf("%s: %d events delivered after Errored", who, s.afterErr)
				}
				if s.emptyAgg {
					x.Failf("%s: empty aggregated batch delivered", who)
				}
				if msg := wx.BookmarksIncreasing(s.bms); msg != "" {
					x.Failf("%s: %s", who, msg)
				}
				// lag rule: never more than `initial capacity` events behind => never errored.
				// The lag is measured conservatively (an over-estimate of writePos - reader position):
				// commits started since the start index minus the log position just past the last event
				// the consumer had fully received when the commit started.
				if s.errored {
					boot := 0
					if s.f == wx.KindBootstrap || s.f == wx.KindAggregatedBootstrap {
						boot = len(wx.States(commits)[start]) + 1
					}
					var idPos []int // ByID: log position just past the j-th matching commit at/after start
					for k := start; k < len(commits); k++ {
						if commits[k].ID == "a" {
							idPos = append(idPos, k+1)
						}
					}
					maxLag := 0
					// the preloaded resources are the first commits and precede every write of the script
					off := len(log.Preload)
					for k := off; k < len(commits) && k-off < len(lagAt); k++ {
						recvPos := start
						if s.f == wx.ByID {
							if r := lagAt[k-off][j]; r >= 2 && r-2 < len(idPos) {
								recvPos = idPos[r-2]
							}
						} else if r := lagAt[k-off][j] - boot; r > 0 {
							recvPos = start + r
						}
						if lag := (k + 1) - recvPos; lag > maxLag {
							maxLag = lag
						}
					}
					if maxLag <= cfg.initial {
						x.Failf("%s: Errored although the subscriber never lagged more than %d events (initial capacity %d)", who, maxLag, cfg.initial)
					}
				}
				x.Outcome("%v:start=%d,n=%d,err=%v", s.f, start, len(s.got), s.errored)
			}
			// the log is the truth
			l, _ := st.List(ctx, hx.IntKind())
			m := map[string]resource.Resource{}
			for k, v := range log.StateAt(log.Len()) {
				if v.Metadata().Type() == typ {
					m[k] = v
				}
			}
			if got, want := hx.SnapList(l), hx.SnapMap(m); got != want {
				x.Failf("final List %q differs from the folded commit log %q", got, want)
			}
			vrt.Branching(false)
			log.Frozen = true
			cancel()
			vrt.WaitQuiescent()
		},
	}
}

func build(tier string) []explore.Scenario {
	cfgs := []ringCfg{{1, 1, 0}, {2, 2, 0}, {2, 4, 1}, {3, 4, 2}, {1, 2, 0}, {2, 3, 1}, {2, 2, 2}, {4, 4, 5}}
	small := []ringCfg{{1, 1, 0}, {2, 2, 0}, {1, 2, 0}, {2, 3, 1}}
	var out []explore.Scenario
	add := func(cs []ringCfg, w int, b []int) {
		for _, c := range cs {
			for f := wx.Flavour(0); f < wx.NFlavours; f++ {
				out = append(out, scenario(c, []wx.Flavour{f}, w, b))
			}
		}
	}
	two := [][]wx.Flavour{{wx.Kind, wx.ByID}, {wx.KindAggregated, wx.KindBootstrap}, {wx.Kind, wx.Kind}}
	if tier == "thorough" {
		for _, c := range small[:2] {
			for f := wx.Flavour(0); f < wx.NFlavours; f++ {
				out = append(out, scenarioP(c, []wx.Flavour{f}, 2, []int{0, 1, 2, 3, -1}, true))
			}
			for _, fs := range two {
				out = append(out, scenarioP(c, fs, 1, []int{0, 1, 2}, true))
			}
		}
		add(cfgs, 9, []int{0})
		add(cfgs, 6, []int{0, 1})
		add(small, 4, []int{0, 1, 2})
		add(small, 3, []int{0, 1, 2, 3, -1})
		for _, c := range []ringCfg{{2, 2, 0}, {2, 4, 1}} {
			for _, fs := range two {
				out = append(out, scenario(c, fs, 5, []int{0, 1}))
			}
		}
		return out
	}
	for _, c := range small[:2] {
		for f := wx.Flavour(0); f < wx.NFlavours; f++ {
			out = append(out, scenarioP(c, []wx.Flavour{f}, 2, []int{0, 1, 2}, true))
		}
		out = append(out, scenarioP(c, two[1], 1, []int{0, 1}, true))
	}
	add(cfgs, 6, []int{0})
	add(small, 4, []int{0, 1})
	add(small[:2], 3, []int{0, 1, 2})
	for _, c := range []ringCfg{{1, 1, 0}, {1, 2, 0}} {
		for _, fs := range two {
			out = append(out, scenario(c, fs, 2, []int{0}))
		}
	}
	return out
}

func main() {
	explore.Main(explore.Config{
		Property:  "C02",
		Technique: "stateless model checking of the real inmem watch ring under a controlled scheduler (iterative preemption bounding, unbounded for small configurations); stream compared with the commit log",
		Rule:      "one execution per schedule of a scripted writer vs 1-2 subscribers (5 watch flavours x 8 history configurations); consumer speed and watch start are scheduler choices; non-trivial = schedule differs from the default order in at least one decision",
		Assume: []string{
			"voluntary yields before every write and every receive make 'stalled consumer' and 'late watch' free switches",
			"commit order = order of BackingStore.Put/Destroy calls made under the collection lock",
		},
	}, build)
}
