// Harness C03: finalizers gate destruction; blocking lifecycle helpers never miss or jump.
package main

import (
	"context"
	"fmt"
	"strings"

	"github.com/cosi-project/runtime/pkg/controller/conformance"
	"github.com/cosi-project/runtime/pkg/resource"
	"github.com/cosi-project/runtime/pkg/state"
	"github.com/cosi-project/runtime/pkg/state/protobuf/client"
	"github.com/cosi-project/runtime/pkg/state/protobuf/server"
	"verif.local/explore"
	"verif.local/harness/hx"
	"verif.local/harness/lb"
	"verif.local/vrt"
	"verif.local/vrt/vctx"
)

type opKind int

const (
	opTDD opKind = iota
	opTeardown
	opDestroy
	opRmFin
	opAddRm
	opCreate
	opWaitFinEmpty
	opWaitTD
	opWaitDestroyed
	opCtxTeardown
	opWaitFinEmptyTD
	nOps
)

var opNames = [...]string{"tdd", "teardown", "destroy", "rmfin", "addrm", "create", "waitfor-finempty", "waitfor-td", "waitfor-destroyed", "ctx-teardown", "waitfor-finempty+td"}

type initial int

const (
	initAbsent initial = iota
	initRunning
	initRunningF
	initTDF
)

var initNames = [...]string{"absent", "running", "running+F", "tearingdown+F"}

const typ = conformance.IntResourceType

// spy records, per goroutine, the commit-log length before and after every Watch establishment.
type spy struct {
	state.CoreState
	log    *hx.Log
	before map[int][]int
	after  map[int][]int
	parent map[int]int // remote flavours: stream handler goroutine -> calling goroutine
}

func (s *spy) Watch(ctx context.Context, p resource.Pointer, ch chan<- state.Event, opts ...state.WatchOption) error {
	g := vrt.CurID()
	if pg, ok := s.parent[g]; ok {
		g = pg
	}
	vrt.TouchKey("c03.spy", true)
	s.before[g] = append(s.before[g], s.log.Len())
	err := s.CoreState.Watch(ctx, p, ch, opts...)
	vrt.TouchKey("c03.spy", true)
	s.after[g] = append(s.after[g], s.log.Len())
	return err
}

type call struct {
	kind     opKind
	idx      int
	g        int
	done     bool
	err      error
	ret      resource.Resource
	ready    bool
	logStart int
	logEnd   int
	tctx     context.Context
}

func ptr() resource.Pointer { return hx.IntPtr("r") }

func (c *call) run(ctx context.Context, st state.State) {
	switch c.kind {
	case opTDD:
		c.err = st.TeardownAndDestroy(ctx, ptr())
	case opTeardown:
		c.ready, c.err = st.Teardown(ctx, ptr())
	case opDestroy:
		c.err = st.Destroy(ctx, ptr())
	case opRmFin:
		c.err = st.RemoveFinalizer(ctx, ptr(), "F")
	case opAddRm:
		if c.err = st.AddFinalizer(ctx, ptr(), "G"); c.err == nil {
			vrt.Yield()
			c.err = st.RemoveFinalizer(ctx, ptr(), "G")
		}
	case opCreate:
		c.err = st.Create(ctx, conformance.NewIntResource(hx.NS, "r", 9))
	case opWaitFinEmpty:
		c.ret, c.err = st.WatchFor(ctx, ptr(), state.WithFinalizerEmpty())
	case opWaitTD:
		c.ret, c.err = st.WatchFor(ctx, ptr(), state.WithPhases(resource.PhaseTearingDown))
	case opWaitDestroyed:
		c.ret, c.err = st.WatchFor(ctx, ptr(), state.WithEventTypes(state.Destroyed))
	case opCtxTeardown:
		c.tctx, c.err = st.ContextWithTeardown(ctx, ptr())
	case opWaitFinEmptyTD:
		c.ret, c.err = st.WatchFor(ctx, ptr(), state.WithFinalizerEmpty(), state.WithPhases(resource.PhaseTearingDown))
	}
}

// matches is the harness's own reading of the WatchFor conditions (conjunction of the given ones; a Destroyed event
// never satisfies "finalizers empty"); deliberately not state.WatchForCondition.Matches, which is code under test.
func (c *call) matches(ev state.Event) bool {
	if ev.Resource == nil {
		return false
	}
	finEmpty := ev.Type != state.Destroyed && ev.Resource.Metadata().Finalizers().Empty()
	td := ev.Resource.Metadata().Phase() == resource.PhaseTearingDown
	switch c.kind {
	case opWaitFinEmpty:
		return finEmpty
	case opWaitTD:
		return td
	case opWaitDestroyed:
		return ev.Type == state.Destroyed
	case opWaitFinEmptyTD:
		return finEmpty && td
	}
	return false
}

// states returns S_0..S_n: the state of r after k commits.
func states(log *hx.Log) []resource.Resource {
	out := []resource.Resource{nil}
	var cur resource.Resource
	for _, e := range log.Entries {
		if e.Type == typ && e.ID == "r" {
			if e.Destroy {
				cur = nil
			} else {
				cur = e.Res
			}
		}
		out = append(out, cur)
	}
	return out
}

// eventsFrom models the event sequence a watch on r established after k0 commits delivers.
func eventsFrom(ss []resource.Resource, k0 int) []state.Event {
	var ev []state.Event
	if ss[k0] != nil {
		ev = append(ev, state.Event{Type: state.Created, Resource: ss[k0]})
	} else {
		ev = append(ev, state.Event{Type: state.Destroyed, Resource: resource.NewTombstone(resource.NewMetadata(hx.NS, typ, "r", resource.VersionUndefined))})
	}
	for k := k0 + 1; k < len(ss); k++ {
		switch {
		case ss[k] == nil && ss[k-1] != nil:
			ev = append(ev, state.Event{Type: state.Destroyed, Resource: ss[k-1]})
		case ss[k] != nil && ss[k-1] == nil:
			ev = append(ev, state.Event{Type: state.Created, Resource: ss[k]})
		case ss[k] != nil:
			ev = append(ev, state.Event{Type: state.Updated, Resource: ss[k], Old: ss[k-1]})
		}
	}
	return ev
}

// snapN renders a resource; a tombstone and its wire form (a typed zero value at version undefined) are the same.
func snapN(r resource.Resource) string {
	if r != nil && r.Metadata().Version().String() == resource.VersionUndefined.String() {
		return fmt.Sprintf("%s/%s@undefined", r.Metadata().Type(), r.Metadata().ID())
	}
	return hx.Snap(r)
}

func tornDown(r resource.Resource) bool {
	return r == nil || r.Metadata().Phase() == resource.PhaseTearingDown
}

func scenario(kinds []opKind, init initial, bounds []int) explore.Scenario {
	return scenarioFl("wrap-inmem", kinds, init, bounds)
}

func scenarioFl(flavour string, kinds []opKind, init initial, bounds []int) explore.Scenario {
	names := make([]string, len(kinds))
	for i, k := range kinds {
		names[i] = opNames[k]
	}
	name := fmt.Sprintf("%s/%s/%s", flavour, initNames[init], strings.Join(names, "+"))
	return explore.Scenario{
		Name:   name,
		Desc:   fmt.Sprintf("actors %s on one resource, initial %s, flavour %s (remote-native = client adapter with Teardown/TeardownAndDestroy RPCs over the in-process transport, remote-fallback = server without those RPCs)", strings.Join(names, ", "), initNames[init], flavour),
		Bounds: bounds,
		HB:     true,
		Body: func(x *explore.X) {
			root, cancel := vctx.WithCancel(context.Background())
			log := &hx.Log{}
			sp := &spy{CoreState: hx.NewInmem(log), log: log, before: map[int][]int{}, after: map[int][]int{}}
			st := state.WrapCore(sp)
			if flavour != "wrap-inmem" {
				lc := lb.New(server.NewState(sp))
				lc.NoNative = flavour == "remote-fallback"
				sp.parent = lc.Parent
				st = state.WrapCore(client.NewAdapter(lc))
			}
			if init != initAbsent {
				r := conformance.NewIntResource(hx.NS, "r", 7)
				if init >= initRunningF {
					r.Metadata().Finalizers().Add("F")
				}
				if init == initTDF {
					r.Metadata().SetPhase(resource.PhaseTearingDown)
				}
				if err := st.Create(root, r); err != nil {
					panic(err)
				}
			}
			calls := make([]*call, len(kinds))
			for i, k := range kinds {
				c := &call{kind: k, idx: i}
				calls[i] = c
				vrt.GoNamed(fmt.Sprintf("a%d:%s", i, opNames[k]), func() {
					c.g = vrt.CurID()
					c.logStart = log.Len()
					c.run(root, st)
					c.logEnd = log.Len()
					c.done = true
				})
			}
			vrt.WaitQuiescent()
			vrt.TouchKey("c03.spy", true)
			check(x, log, sp, calls)
			// epilogue: cancellation must unblock everything
			vrt.Branching(false)
			log.Frozen = true
			cancel()
			vrt.WaitQuiescent()
			for _, c := range calls {
				if !c.done {
					x.Failf("actor %d (%s) still blocked after its context was cancelled", c.idx, opNames[c.kind])
				}
			}
		},
	}
}

func check(x *explore.X, log *hx.Log, sp *spy, calls []*call) {
	ss := states(log)
	n := log.Len()
	final := ss[n]
	// S1: no destroy commit on a state with finalizers
	for i, e := range log.Entries {
		if e.Destroy && e.Type == typ {
			if p := ss[i]; p == nil || !p.Metadata().Finalizers().Empty() {
				x.Failf("S1: destroy commit #%d while the resource held finalizers: %s", i, hx.Snap(p))
			}
		}
	}
	var outc []string
	for _, c := range calls {
		who := fmt.Sprintf("actor %d (%s)", c.idx, opNames[c.kind])
		cls := hx.ErrClass(c.err)
		if !c.done {
			cls = "blocked"
		}
		outc = append(outc, opNames[c.kind]+":"+cls)
		hi := n
		if c.done {
			hi = c.logEnd
		}
		switch c.kind {
		case opTeardown:
			if c.done && c.err == nil {
				// S2: ready only if finalizers were empty when the teardown took effect
				ok := false
				for k := c.logStart; k <= hi; k++ {
					s := ss[k]
					if s != nil && s.Metadata().Phase() == resource.PhaseTearingDown && s.Metadata().Finalizers().Empty() == c.ready {
						// either the state it committed (k>logStart by itself) or a state already torn down that it read
						ok = true
					}
				}
				if !ok {
					x.Failf("S2: %s returned ready=%v but no tearing-down state with finalizers-empty=%v existed during the call", who, c.ready, c.ready)
				}
				if c.ready {
					// stronger: the state in which the phase became tearing-down, if committed by this call
					for k := c.logStart; k < hi; k++ {
						if log.Entries[k].G == c.g && !log.Entries[k].Destroy && !log.Entries[k].Res.Metadata().Finalizers().Empty() {
							x.Failf("S2: %s reported ready but its own teardown commit has finalizers: %s", who, hx.Snap(log.Entries[k].Res))
						}
					}
				}
			}
		case opTDD:
			if c.done && c.err == nil {
				found := false
				for k := c.logStart; k < hi; k++ {
					if log.Entries[k].Destroy && log.Entries[k].Type == typ {
						found = true
					}
				}
				if !found {
					x.Failf("S3: %s returned success but no destroy of the resource was committed during the call", who)
				}
			}
			if !c.done {
				// L1: legitimately blocked only while the resource exists with finalizers
				if final == nil || final.Metadata().Finalizers().Empty() {
					x.Failf("L1: missed wake-up: %s is blocked at quiescence although the final state is %s", who, hx.Snap(final))
				}
			}
		case opWaitFinEmpty, opWaitTD, opWaitDestroyed, opWaitFinEmptyTD:
			bs, as := sp.before[c.g], sp.after[c.g]
			if len(bs) == 0 || len(as) == 0 {
				x.Failf("%s: no watch was established", who)
				break
			}
			lo, up := bs[0], as[0]
			firstMatch := func(k0 int) (resource.Resource, bool) {
				for _, ev := range eventsFrom(ss[:hi+1], k0) {
					if c.matches(ev) {
						return ev.Resource, true
					}
				}
				return nil, false
			}
			if c.done {
				if c.err != nil {
					x.Failf("%s failed: %v", who, c.err)
					break
				}
				ok := false
				var want []string
				for k0 := lo; k0 <= up; k0++ {
					if r, found := firstMatch(k0); found {
						want = append(want, snapN(r))
						if snapN(r) == snapN(c.ret) {
							ok = true
						}
					}
				}
				if !ok {
					x.Failf("W1: %s returned %s, but the first matching state for a watch established at commit index %d..%d is %v", who, hx.Snap(c.ret), lo, up, want)
				}
			} else if _, found := firstMatch(up); found {
				x.Failf("W1: missed: %s is still blocked although a matching state occurred after its watch was established (index %d)", who, up)
			}
		case opCtxTeardown:
			if c.err != nil {
				x.Failf("%s failed: %v", who, c.err)
				break
			}
			bs, as := sp.before[c.g], sp.after[c.g]
			lo, up := bs[0], as[0]
			cancelled := c.tctx.Err() != nil
			must, may := false, false
			for k := lo; k <= n; k++ {
				if tornDown(ss[k]) {
					may = true
					if k >= up {
						must = true
					}
				}
			}
			if must && !cancelled {
				x.Failf("X1: teardown-bound context not cancelled although the resource was torn down / absent at or after index %d (final %s)", up, hx.Snap(final))
			}
			if cancelled && !may {
				x.Failf("X2: teardown-bound context cancelled although the resource was running throughout (from index %d)", lo)
			}
			outc[len(outc)-1] += fmt.Sprintf("(cancelled=%v)", cancelled)
		}
	}
	x.Outcome("%s => %s", strings.Join(outc, ","), hx.Snap(final))
}

func build(tier string) []explore.Scenario {
	var out []explore.Scenario
	inits := []initial{initAbsent, initRunning, initRunningF, initTDF}
	for a := opKind(0); a < nOps; a++ {
		for b := a; b < nOps; b++ {
			if a >= opWaitFinEmpty && b >= opWaitFinEmpty {
				continue // two pure observers never interact
			}
			for _, in := range inits {
				// happens-before pruning (DESIGN 8.4) makes the unbounded search of a pair cheap
				bounds := []int{0, 1, 2, -1}
				out = append(out, scenario([]opKind{a, b}, in, bounds))
			}
		}
	}
	// remote flavours: the blocking helpers against the concurrent actors that matter for them
	for _, fl := range []string{"remote-native", "remote-fallback"} {
		for _, pr := range [][]opKind{{opTDD, opRmFin}, {opTDD, opAddRm}, {opTDD, opDestroy}, {opTDD, opTDD}, {opTeardown, opRmFin}, {opTeardown, opTeardown},
			{opRmFin, opWaitFinEmpty}, {opTeardown, opWaitTD}, {opDestroy, opWaitDestroyed}, {opTeardown, opCtxTeardown}, {opDestroy, opCtxTeardown}} {
			for _, in := range []initial{initRunningF, initRunning} {
				b := []int{0, 1}
				if tier == "thorough" {
					b = []int{0, 1, 2}
				}
				sc := scenarioFl(fl, pr, in, b)
				sc.MaxExecs = 150000
				if tier == "thorough" {
					sc.MaxExecs = 3000000
				}
				out = append(out, sc)
			}
		}
	}
	triples := [][]opKind{
		{opTDD, opRmFin, opAddRm}, {opTDD, opRmFin, opCreate}, {opTDD, opTDD, opRmFin}, {opTDD, opTeardown, opRmFin},
		{opWaitFinEmpty, opRmFin, opAddRm}, {opWaitTD, opTeardown, opDestroy}, {opWaitDestroyed, opTDD, opRmFin},
		{opCtxTeardown, opTeardown, opRmFin}, {opCtxTeardown, opDestroy, opCreate}, {opWaitDestroyed, opDestroy, opCreate},
		{opWaitFinEmptyTD, opRmFin, opTeardown}, {opWaitFinEmptyTD, opTeardown, opAddRm},
	}
	if tier == "thorough" {
		triples = [][]opKind{{opWaitFinEmptyTD, opRmFin, opTeardown}, {opWaitFinEmptyTD, opTeardown, opAddRm}, {opWaitFinEmptyTD, opRmFin, opAddRm}}
		for a := opKind(0); a < opWaitFinEmptyTD; a++ {
			for b := a; b < opWaitFinEmptyTD; b++ {
				for c := b; c < opWaitFinEmptyTD; c++ {
					block := 0
					for _, k := range []opKind{a, b, c} {
						if k == opTDD || k >= opWaitFinEmpty {
							block++
						}
					}
					if block == 0 || block == 3 {
						continue
					}
					triples = append(triples, []opKind{a, b, c})
				}
			}
		}
	}
	// four actors: a blocking helper against a full foreign lifecycle (last finalizer removed, destroyed,
	// created again) landing between its steps
	quads := [][]opKind{
		{opTDD, opRmFin, opDestroy, opCreate}, {opWaitDestroyed, opRmFin, opDestroy, opCreate},
		{opWaitFinEmpty, opRmFin, opDestroy, opCreate}, {opCtxTeardown, opRmFin, opDestroy, opCreate}, {opTDD, opTDD, opRmFin, opCreate},
	}
	for _, q := range quads {
		for _, in := range []initial{initRunningF, initTDF} {
			b := []int{0, 1}
			if tier == "thorough" {
				b = []int{0, 1, 2, 3}
			}
			out = append(out, scenario(q, in, b))
		}
	}
	for _, t := range triples {
		for _, in := range []initial{initRunningF, initTDF, initRunning} {
			b := []int{0, 1, 2}
			if tier == "thorough" {
				b = []int{0, 1, 2, 3, -1}
			}
			out = append(out, scenario(t, in, b))
		}
	}
	return out
}

func main() {
	explore.Main(explore.Config{
		Property:  "C03",
		Technique: "stateless model checking of the real lifecycle helpers under a controlled scheduler (iterative preemption bounding), commit-log + modelled-event-sequence oracles evaluated at exact quiescence",
		Rule:      "one execution per schedule of 2-3 actors (TeardownAndDestroy, Teardown, Destroy, finalizer add/remove, re-create, WatchFor x4 conditions (one of them a conjunction), ContextWithTeardown) on one resource from 4 initial states; non-trivial = schedule differs from the default order in at least one decision",
		Assume: []string{
			"scheduling points before lock acquisitions, channel operations, selects, atomics and ctx.Err reads",
			"quiescence is exact: no enabled goroutine under the scheduler's shadow state",
		},
	}, build)
}
