// Package hx holds helpers shared by the harnesses: the commit log (a recording BackingStore), state
// builders, canonical snapshots.
package hx

import (
	"context"
	"fmt"
	"sort"
	"strings"

	"github.com/cosi-project/runtime/pkg/controller/conformance"
	"github.com/cosi-project/runtime/pkg/resource"
	"github.com/cosi-project/runtime/pkg/state"
	"github.com/cosi-project/runtime/pkg/state/impl/inmem"
	"github.com/cosi-project/runtime/pkg/state/impl/namespaced"
	"verif.local/vrt"
)

// NS is the namespace used by the harnesses.
const NS = "ns"

// Commit is one committed write.
type Commit struct {
	Idx     int
	Destroy bool
	Type    resource.Type
	ID      resource.ID
	Res     resource.Resource // state after the commit (nil for destroy)
	G       int               // goroutine that committed
}

func (c Commit) String() string {
	if c.Destroy {
		return fmt.Sprintf("#%d destroy %s/%s", c.Idx, c.Type, c.ID)
	}
	return fmt.Sprintf("#%d put %s", c.Idx, Snap(c.Res))
}

// Log is a recording BackingStore: Put/Destroy are invoked by the in-memory collection under its lock
// right before the change is published, so the order of entries is the commit (linearisation) order.
type Log struct {
	Entries []Commit
	// FailAt >= 0 makes the FailAt-th (0-based) Put/Destroy fail FailN times.
	Frozen bool
	Hook   func(c *Commit) error
	// Preload is what the store holds before the state is built: Load hands every entry to the state. The
	// entries become the first commits of the log the first time they are loaded, and only then: the stored
	// resources exist once, whatever number of times the state asks for them.
	Preload []resource.Resource
	loaded  bool
}

// Load implements inmem.BackingStore.
func (l *Log) Load(_ context.Context, h inmem.LoadHandler) error {
	if len(l.Preload) == 0 {
		return nil
	}
	vrt.TouchKey("hx.Log", true)
	for _, r := range l.Preload {
		if !l.loaded {
			l.Entries = append(l.Entries, Commit{Idx: len(l.Entries), Type: r.Metadata().Type(), ID: r.Metadata().ID(), Res: r.DeepCopy(), G: vrt.CurID()})
		}
		if err := h(r.Metadata().Type(), r.DeepCopy()); err != nil {
			return err
		}
	}
	l.loaded = true
	return nil
}

// Put implements inmem.BackingStore.
func (l *Log) Put(_ context.Context, typ resource.Type, r resource.Resource) error {
	vrt.TouchKey("hx.Log", true) // the commit log is one object: commit orders are never merged by HB pruning
	if vrt.Aborting() || l.Frozen {
		return nil
	}
	c := Commit{Idx: len(l.Entries), Type: typ, ID: r.Metadata().ID(), Res: r.DeepCopy(), G: vrt.CurID()}
	if l.Hook != nil {
		if err := l.Hook(&c); err != nil {
			return err
		}
	}
	l.Entries = append(l.Entries, c)
	return nil
}

// Destroy implements inmem.BackingStore.
func (l *Log) Destroy(_ context.Context, typ resource.Type, p resource.Pointer) error {
	vrt.TouchKey("hx.Log", true)
	if vrt.Aborting() || l.Frozen {
		return nil
	}
	c := Commit{Idx: len(l.Entries), Destroy: true, Type: typ, ID: p.ID(), G: vrt.CurID()}
	if l.Hook != nil {
		if err := l.Hook(&c); err != nil {
			return err
		}
	}
	l.Entries = append(l.Entries, c)
	return nil
}

// Len is the number of commits so far.
func (l *Log) Len() int { vrt.TouchKey("hx.Log", false); return len(l.Entries) }

// StateAt folds the first n commits into a map key(type/id) -> resource.
func (l *Log) StateAt(n int) map[string]resource.Resource {
	vrt.TouchKey("hx.Log", false)
	m := map[string]resource.Resource{}
	for _, c := range l.Entries[:n] {
		k := string(c.Type) + "/" + string(c.ID)
		if c.Destroy {
			delete(m, k)
		} else {
			m[k] = c.Res
		}
	}
	return m
}

// Before returns the resource state of (typ,id) right before commit n (nil if absent).
func (l *Log) Before(n int, typ resource.Type, id resource.ID) resource.Resource {
	vrt.TouchKey("hx.Log", false)
	var r resource.Resource
	for _, c := range l.Entries[:n] {
		if c.Type == typ && c.ID == id {
			if c.Destroy {
				r = nil
			} else {
				r = c.Res
			}
		}
	}
	return r
}

// NewInmem builds an inmem state for namespace NS that records into log.
func NewInmem(log *Log, opts ...inmem.StateOption) *inmem.State {
	if log != nil {
		opts = append(opts, inmem.WithBackingStore(log))
	}
	return inmem.NewStateWithOptions(opts...)(NS)
}

// NewNamespaced builds a namespaced state over inmem states recording into log.
func NewNamespaced(log *Log, opts ...inmem.StateOption) state.CoreState {
	if log != nil {
		opts = append(opts, inmem.WithBackingStore(log))
	}
	b := inmem.NewStateWithOptions(opts...)
	return namespaced.NewState(func(ns resource.Namespace) state.CoreState { return b(ns) })
}

// Snap is a canonical one-line form of a resource (wall-clock fields excluded).
func Snap(r resource.Resource) string {
	if r == nil {
		return "<nil>"
	}
	md := r.Metadata()
	var b strings.Builder
	fmt.Fprintf(&b, "%s/%s@%s", md.Type(), md.ID(), md.Version())
	if md.Owner() != "" {
		fmt.Fprintf(&b, " owner=%s", md.Owner())
	}
	if md.Phase() != resource.PhaseRunning {
		b.WriteString(" TD")
	}
	if f := *md.Finalizers(); len(f) > 0 {
		fs := make([]string, len(f))
		for i := range f {
			fs[i] = string(f[i])
		}
		fmt.Fprintf(&b, " fin=%v", fs)
	}
	if !md.Labels().Empty() {
		keys := md.Labels().Keys()
		sort.Strings(keys)
		b.WriteString(" labels={")
		for _, k := range keys {
			v, _ := md.Labels().Get(k)
			fmt.Fprintf(&b, "%s=%s,", k, v)
		}
		b.WriteString("}")
	}
	switch x := r.(type) {
	case *conformance.IntResource:
		fmt.Fprintf(&b, " val=%d", x.Value())
	case *conformance.StrResource:
		if v := x.Value(); len(v) > 40 {
			fmt.Fprintf(&b, " val=%q...(%d bytes, sum %d)", v[:16], len(v), sum(v))
		} else {
			fmt.Fprintf(&b, " val=%q", v)
		}
	}
	return b.String()
}

// SnapList renders a list snapshot.
func SnapList(l resource.List) string {
	s := make([]string, len(l.Items))
	for i, r := range l.Items {
		s[i] = Snap(r)
	}
	return strings.Join(s, "; ")
}

// SnapMap renders a folded state.
func SnapMap(m map[string]resource.Resource) string {
	keys := make([]string, 0, len(m))
	for k := range m {
		keys = append(keys, k)
	}
	sort.Strings(keys)
	s := make([]string, len(keys))
	for i, k := range keys {
		s[i] = Snap(m[k])
	}
	return strings.Join(s, "; ")
}

// IntKind is the kind metadata of IntResource in NS.
func IntKind() resource.Kind {
	return resource.NewMetadata(NS, conformance.IntResourceType, "", resource.VersionUndefined)
}

// StrKind is the kind metadata of StrResource in NS.
func StrKind() resource.Kind {
	return resource.NewMetadata(NS, conformance.StrResourceType, "", resource.VersionUndefined)
}

// IntPtr is a pointer to IntResource id in NS.
func IntPtr(id string) resource.Pointer {
	return resource.NewMetadata(NS, conformance.IntResourceType, id, resource.VersionUndefined)
}

// ErrClass classifies a state error.
func ErrClass(err error) string {
	switch {
	case err == nil:
		return "ok"
	case state.IsNotFoundError(err):
		return "notfound"
	case state.IsOwnerConflictError(err):
		return "owner"
	case state.IsPhaseConflictError(err):
		return "phase"
	case state.IsConflictError(err):
		return "conflict"
	default:
		return "other:" + err.Error()
	}
}

// Count returns the number of commits of the given type so far.
func (l *Log) Count(typ resource.Type) int {
	vrt.TouchKey("hx.Log", false)
	n := 0
	for _, c := range l.Entries {
		if c.Type == typ {
			n++
		}
	}
	return n
}

// OfType returns the commits of one type, re-indexed from 0.
func (l *Log) OfType(typ resource.Type) []Commit {
	vrt.TouchKey("hx.Log", false)
	var out []Commit
	for _, c := range l.Entries {
		if c.Type == typ {
			c.Idx = len(out)
			out = append(out, c)
		}
	}
	return out
}

func sum(s string) uint32 {
	h := uint32(2166136261)
	for i := 0; i < len(s); i++ {
		h = (h ^ uint32(s[i])) * 16777619
	}
	return h
}
