// Harness C17: output exclusivity and dependency graph consistent for any registration history.
package main

import (
	"context"
	"fmt"
	"sort"
	"strings"

	"github.com/siderolabs/gen/optional"
	"go.uber.org/zap"

	"github.com/cosi-project/runtime/pkg/controller"
	"github.com/cosi-project/runtime/pkg/controller/conformance"
	"github.com/cosi-project/runtime/pkg/controller/runtime"
	"github.com/cosi-project/runtime/pkg/controller/runtime/options"
	"github.com/cosi-project/runtime/pkg/resource"
	"github.com/cosi-project/runtime/pkg/state"
	"github.com/cosi-project/runtime/pkg/state/impl/inmem"
	"github.com/cosi-project/runtime/pkg/state/impl/namespaced"
	"verif.local/explore"
	"verif.local/harness/hx"
	"verif.local/harness/px"
	"verif.local/seqx"
	"verif.local/vrt"
	"verif.local/vrt/vctx"
)

// ---------------------------------------------------------------- part 1: white-box BFS on the dependency database

type inKey struct {
	ns, typ, id string
	hasID       bool
}

type dbModel struct {
	excl   map[string]string          // type -> controller
	shared map[string]map[string]bool // type -> controllers
	inputs map[string]map[inKey]int   // controller -> key -> kind
}

func newDBModel() *dbModel {
	return &dbModel{excl: map[string]string{}, shared: map[string]map[string]bool{}, inputs: map[string]map[inKey]int{}}
}

func (m *dbModel) edges() []string {
	var out []string
	for t, c := range m.excl {
		out = append(out, fmt.Sprintf("%s -excl-> %s", c, t))
	}
	for t, cs := range m.shared {
		for c := range cs {
			out = append(out, fmt.Sprintf("%s -shared-> %s", c, t))
		}
	}
	for c, ins := range m.inputs {
		for k, kind := range ins {
			out = append(out, fmt.Sprintf("%s <-in%d- %s/%s/%s", c, kind, k.ns, k.typ, k.id))
		}
	}
	sort.Strings(out)
	return out
}

func (m *dbModel) canon() string { return strings.Join(m.edges(), "; ") }

func (m *dbModel) addOutput(c, t string, kind int) bool {
	if _, ok := m.excl[t]; ok {
		return false
	}
	if kind == controller.OutputExclusive {
		if len(m.shared[t]) > 0 {
			return false
		}
		m.excl[t] = c
		return true
	}
	if m.shared[t][c] {
		return false
	}
	if m.shared[t] == nil {
		m.shared[t] = map[string]bool{}
	}
	m.shared[t][c] = true
	return true
}

func (m *dbModel) addInput(c string, k inKey, kind int) bool {
	if _, dup := m.inputs[c][k]; dup {
		return false
	}
	if m.inputs[c] == nil {
		m.inputs[c] = map[inKey]int{}
	}
	m.inputs[c][k] = kind
	return true
}

func (m *dbModel) delInput(c string, k inKey) bool {
	if _, ok := m.inputs[c][k]; !ok {
		return false
	}
	delete(m.inputs[c], k)
	return true
}

func (m *dbModel) dependents(ns, typ, id string) []string {
	var out []string
	for c, ins := range m.inputs {
		for k := range ins {
			if k.ns == ns && k.typ == typ && (!k.hasID || k.id == id) {
				out = append(out, c)
			}
		}
	}
	sort.Strings(out)
	return out
}

func graphEdges(g *controller.DependencyGraph) []string {
	var out []string
	for _, e := range g.Edges {
		switch e.EdgeType {
		case controller.EdgeOutputExclusive:
			out = append(out, fmt.Sprintf("%s -excl-> %s", e.ControllerName, e.ResourceType))
		case controller.EdgeOutputShared:
			out = append(out, fmt.Sprintf("%s -shared-> %s", e.ControllerName, e.ResourceType))
		default:
			kind := map[controller.DependencyEdgeType]int{controller.EdgeInputStrong: controller.InputStrong, controller.EdgeInputWeak: controller.InputWeak,
				controller.EdgeInputDestroyReady: controller.InputDestroyReady, controller.EdgeInputQPrimary: controller.InputQPrimary,
				controller.EdgeInputQMapped: controller.InputQMapped, controller.EdgeInputQMappedDestroyReady: controller.InputQMappedDestroyReady}[e.EdgeType]
			out = append(out, fmt.Sprintf("%s <-in%d- %s/%s/%s", e.ControllerName, kind, e.ResourceNamespace, e.ResourceType, e.ResourceID))
		}
	}
	sort.Strings(out)
	return out
}

func mkInput(typ, id string, kind int) controller.Input {
	in := controller.Input{Namespace: "n", Type: resource.Type(typ), Kind: kind}
	if id != "" {
		in.ID = optional.Some(resource.ID(id))
	}
	return in
}

type dbInst struct {
	db *runtime.VerifDepDB
	m  *dbModel
	// query results handed out earlier, with a snapshot taken at that moment: a result is the caller's
	// (event delivery walks it after the database lock is released), later mutations must not show in it
	held []heldResult
}

type heldResult struct {
	what string
	got  any
	snap string
}

func (in *dbInst) hold(what string, got any) {
	in.held = append(in.held, heldResult{what, got, fmt.Sprint(got)})
}

func (in *dbInst) checkHeld(op string) string {
	for _, h := range in.held {
		if now := fmt.Sprint(h.got); now != h.snap {
			return fmt.Sprintf("result of %s, handed out as %s, reads %s after %q: query results alias the database's own slices", h.what, h.snap, now, op)
		}
	}
	return ""
}

func (in *dbInst) Close()        {}
func (in *dbInst) Canon() string { return in.m.canon() }

func (in *dbInst) Ops() []string {
	var out []string
	for _, c := range []string{"A", "B"} {
		for _, t := range []string{"T1", "T2"} {
			out = append(out, fmt.Sprintf("out %s %s 0", c, t), fmt.Sprintf("out %s %s 1", c, t))
			for _, id := range []string{"-", "a", "b"} {
				for kind := 0; kind < 6; kind++ {
					if (c == "B" || t == "T2") && kind > 1 {
						continue
					}
					out = append(out, fmt.Sprintf("in %s %s %s %d", c, t, id, kind))
				}
				out = append(out, fmt.Sprintf("del %s %s %s", c, t, id))
			}
		}
	}
	return out
}

func (in *dbInst) Apply(op string) string {
	f := strings.Fields(op)
	var err error
	var want bool
	switch f[0] {
	case "out":
		kind := int(f[3][0] - '0')
		err = in.db.AddControllerOutput(f[1], controller.Output{Type: resource.Type(f[2]), Kind: kind})
		want = in.m.addOutput(f[1], f[2], kind)
	case "in":
		id := strings.TrimPrefix(f[3], "-")
		kind := int(f[4][0] - '0')
		err = in.db.AddControllerInput(f[1], mkInput(f[2], id, kind))
		want = in.m.addInput(f[1], inKey{"n", f[2], id, id != ""}, kind)
	case "del":
		id := strings.TrimPrefix(f[3], "-")
		err = in.db.DeleteControllerInput(f[1], mkInput(f[2], id, 0))
		want = in.m.delInput(f[1], inKey{"n", f[2], id, id != ""})
	}
	if (err == nil) != want {
		return fmt.Sprintf("%s: implementation err=%v, model accepts=%v (state %s)", op, err, want, in.m.canon())
	}
	if msg := in.checkHeld(op); msg != "" {
		return msg
	}
	return in.queries()
}

func (in *dbInst) queries() string {
	g, err := in.db.Export()
	if err != nil {
		return err.Error()
	}
	if got, want := strings.Join(graphEdges(g), "; "), in.m.canon(); got != want {
		return fmt.Sprintf("exported graph %q, model %q", got, want)
	}
	nexcl := map[string]int{}
	for _, e := range g.Edges {
		if e.EdgeType == controller.EdgeOutputExclusive {
			nexcl[e.ResourceType]++
		}
	}
	for _, e := range g.Edges {
		if e.EdgeType == controller.EdgeOutputShared && nexcl[e.ResourceType] > 0 || nexcl[e.ResourceType] > 1 {
			return fmt.Sprintf("exclusive and shared claims coexist (or two exclusive holders) on %s", e.ResourceType)
		}
	}
	for _, t := range []string{"T1", "T2"} {
		for _, id := range []string{"a", "b", "c"} {
			deps, err := in.db.GetDependentControllers(mkInput(t, id, 0))
			if err != nil {
				return err.Error()
			}
			in.hold(fmt.Sprintf("GetDependentControllers(%s/%s)", t, id), deps)
			deps = append([]string(nil), deps...)
			sort.Strings(deps)
			if got, want := fmt.Sprint(deps), fmt.Sprint(in.m.dependents("n", t, id)); got != want {
				return fmt.Sprintf("dependents of %s/%s: %s, model %s", t, id, got, want)
			}
		}
	}
	for _, c := range []string{"A", "B"} {
		ins, _ := in.db.GetControllerInputs(c)
		in.hold("GetControllerInputs("+c+")", ins)
		if len(ins) != len(in.m.inputs[c]) {
			return fmt.Sprintf("inputs of %s: %v, model %v", c, ins, in.m.inputs[c])
		}
		for i, x := range ins {
			if i > 0 && ins[i-1].Compare(x) >= 0 {
				return fmt.Sprintf("inputs of %s not sorted: %v", c, ins)
			}
			if k, ok := in.m.inputs[c][inKey{string(x.Namespace), string(x.Type), string(x.ID.ValueOrZero()), x.ID.IsPresent()}]; !ok || k != x.Kind {
				return fmt.Sprintf("input %v of %s not in model", x, c)
			}
		}
		outs, _ := in.db.GetControllerOutputs(c)
		in.hold("GetControllerOutputs("+c+")", outs)
		n := 0
		for t, h := range in.m.excl {
			if h == c {
				n++
				_ = t
			}
		}
		for _, cs := range in.m.shared {
			if cs[c] {
				n++
			}
		}
		if len(outs) != n {
			return fmt.Sprintf("outputs of %s: %v, model has %d", c, outs, n)
		}
	}
	return ""
}

// ---------------------------------------------------------------- part 2: runtime API sequences

const (
	t1 = conformance.IntResourceType
	t2 = conformance.StrResourceType
	o1 = resource.Type("out/one")
	o2 = resource.Type("out/two")
)

type decl struct {
	name    string
	q       bool
	inputs  []controller.Input
	outputs []controller.Output
	conc    int // q only: 0 = default, -1 = explicit zero (invalid)
	update  bool
}

func rin(typ resource.Type, id string, kind int) controller.Input {
	in := controller.Input{Namespace: hx.NS, Type: typ, Kind: kind}
	if id != "" {
		in.ID = optional.Some(resource.ID(id))
	}
	return in
}

func decls() []decl {
	ex := func(t resource.Type) controller.Output {
		return controller.Output{Type: t, Kind: controller.OutputExclusive}
	}
	sh := func(t resource.Type) controller.Output {
		return controller.Output{Type: t, Kind: controller.OutputShared}
	}
	return []decl{
		{name: "c1", inputs: []controller.Input{rin(t1, "", controller.InputWeak)}, outputs: []controller.Output{ex(o1)}},
		{name: "c2", inputs: []controller.Input{rin(t1, "a", controller.InputStrong), rin(t1, "b", controller.InputWeak)}, outputs: []controller.Output{sh(o1)}},
		{name: "c3-dupkeys", inputs: []controller.Input{rin(t1, "", controller.InputWeak), rin(t1, "", controller.InputStrong)}, outputs: []controller.Output{ex(o2)}},
		{name: "c4-qkind", inputs: []controller.Input{rin(t2, "", controller.InputWeak), rin(t1, "", controller.InputQPrimary)}, outputs: []controller.Output{ex(o2)}},
		{name: "c5", inputs: []controller.Input{rin(t2, "", controller.InputWeak)}, outputs: []controller.Output{ex(o1)}},
		{name: "c6", inputs: []controller.Input{rin(t1, "", controller.InputDestroyReady)}, outputs: []controller.Output{sh(o2), ex(o1)}},
		{name: "q1", q: true, inputs: []controller.Input{rin(t1, "", controller.InputQPrimary), rin(t2, "", controller.InputQMapped)}, outputs: []controller.Output{ex(o2)}},
		{name: "q2-kind", q: true, inputs: []controller.Input{rin(t2, "", controller.InputQPrimary), rin(t1, "", controller.InputWeak)}, outputs: []controller.Output{ex(o2)}},
		{name: "q3-conc0", q: true, conc: -1, inputs: []controller.Input{rin(t1, "", controller.InputQPrimary)}, outputs: []controller.Output{sh(o2)}},
		{name: "q4", q: true, inputs: []controller.Input{rin(t2, "", controller.InputQPrimary), rin(t1, "a", controller.InputQMapped)}, outputs: []controller.Output{sh(o1)}},
		{name: "q5-dupkeys", q: true, inputs: []controller.Input{rin(t1, "", controller.InputQPrimary), rin(t1, "", controller.InputQMapped)}, outputs: []controller.Output{ex(o2)}},
		{name: "c1", inputs: []controller.Input{rin(t2, "", controller.InputWeak)}, outputs: []controller.Output{sh(o2)}}, // same name again
		{name: "u1", update: true, inputs: []controller.Input{rin(t2, "", controller.InputWeak)}},
		{name: "u2-dup", update: true, inputs: []controller.Input{rin(t1, "", controller.InputWeak), rin(t1, "", controller.InputStrong)}},
		// one event matching two inputs of the same controller, only one of them destroy-ready
		{name: "c11-kindDR+idweak", inputs: []controller.Input{rin(t1, "", controller.InputDestroyReady), rin(t1, "b", controller.InputWeak)}, outputs: []controller.Output{sh(o1)}},
		{name: "c12-kindweak+idDR", inputs: []controller.Input{rin(t1, "", controller.InputWeak), rin(t1, "b", controller.InputDestroyReady)}, outputs: []controller.Output{sh(o2)}},
		{name: "u3-mixed", update: true, inputs: []controller.Input{rin(t1, "", controller.InputStrong), rin(t1, "a", controller.InputDestroyReady)}},
	}
}

// accept applies d to the model; returns whether the registration must be accepted.
func accept(m *dbModel, registered map[string]bool, d decl) bool {
	if registered[d.name] {
		return false
	}
	trial := newDBModel()
	// copy
	for k, v := range m.excl {
		trial.excl[k] = v
	}
	for k, v := range m.shared {
		trial.shared[k] = map[string]bool{}
		for c := range v {
			trial.shared[k][c] = true
		}
	}
	for c, ins := range m.inputs {
		trial.inputs[c] = map[inKey]int{}
		for k, v := range ins {
			trial.inputs[c][k] = v
		}
	}
	if d.q && d.conc == -1 {
		return false
	}
	for _, o := range d.outputs {
		if !trial.addOutput(d.name, string(o.Type), o.Kind) {
			return false
		}
	}
	for _, in := range d.inputs {
		isQ := in.Kind >= controller.InputQPrimary
		if isQ != d.q {
			return false
		}
		if !trial.addInput(d.name, inKey{string(in.Namespace), string(in.Type), string(in.ID.ValueOrZero()), in.ID.IsPresent()}, in.Kind) {
			return false
		}
	}
	*m = *trial
	registered[d.name] = true
	return true
}

func runSequence(x *explore.X, seq []int, startAt int) {
	ds := decls()
	var names []string
	for _, i := range seq {
		names = append(names, ds[i].name)
	}
	label := fmt.Sprintf("%v start@%d", names, startAt)
	fail := func(key, format string, a ...any) {
		x.FailKey(key, "sequence %s: %s", label, fmt.Sprintf(format, a...))
	}
	res := vrt.Run(nil, vrt.Options{}, func() {
		ctx, cancel := context.WithCancel(context.Background())
		st := state.WrapCore(namespaced.NewState(inmem.Build))
		rt, err := runtime.NewRuntime(st, zap.NewNop(), options.WithMetrics(false))
		if err != nil {
			panic(err)
		}
		m := newDBModel()
		registered := map[string]bool{}
		probes := map[string]*px.Probe{}
		qprobes := map[string]*px.QProbe{}
		started := false
		runDone := false
		start := func() {
			started = true
			vrt.Go(func() { rt.Run(ctx); runDone = true }) //nolint:errcheck
			vrt.WaitQuiescent()
		}
		for pos, i := range seq {
			if pos == startAt {
				start()
			}
			d := ds[i]
			before := m.canon()
			var rerr error
			var want bool
			switch {
			case d.update:
				p := probes["c1"]
				if p == nil || p.Runtime == nil {
					continue // nothing to update yet (controller not registered/started)
				}
				rerr = p.Runtime.UpdateInputs(append([]controller.Input(nil), d.inputs...))
				// model: valid iff kinds ok and no duplicate keys
				seen := map[inKey]bool{}
				want = true
				for _, in := range d.inputs {
					k := inKey{string(in.Namespace), string(in.Type), string(in.ID.ValueOrZero()), in.ID.IsPresent()}
					if seen[k] || in.Kind >= controller.InputQPrimary {
						want = false
					}
					seen[k] = true
				}
				if want {
					m.inputs["c1"] = map[inKey]int{}
					for _, in := range d.inputs {
						m.inputs["c1"][inKey{string(in.Namespace), string(in.Type), string(in.ID.ValueOrZero()), in.ID.IsPresent()}] = in.Kind
					}
				}
			case d.q:
				qp := &px.QProbe{NameV: d.name, SettingsV: controller.QSettings{Inputs: d.inputs, Outputs: d.outputs}}
				if d.conc == -1 {
					qp.SettingsV.Concurrency = optional.Some(uint(0))
				}
				qp.OnMap = func(context.Context, controller.QRuntime, controller.ReducedResourceMetadata) ([]resource.Pointer, error) {
					return nil, nil
				}
				rerr = rt.RegisterQController(qp)
				want = accept(m, registered, d)
				if rerr == nil {
					qprobes[d.name] = qp
				}
			default:
				p := &px.Probe{NameV: d.name, InputsV: d.inputs, OutputsV: d.outputs}
				rerr = rt.RegisterController(p)
				want = accept(m, registered, d)
				if rerr == nil {
					probes[d.name] = p
				}
			}
			if (rerr == nil) != want {
				if want {
					fail("api/valid-registration-refused", "step %d (%s) must be accepted (model graph {%s}) but was refused: %v", pos, d.name, before, rerr)
				} else {
					fail("api/invalid-registration-accepted", "step %d (%s) must be rejected but was accepted", pos, d.name)
				}
				break
			}
			if d.update && rerr != nil {
				// a rejected UpdateInputs may have applied part of the change (the statement promises
				// "no effect" for rejected registrations only): adopt what the graph shows for c1, but it
				// must stay within old inputs + requested inputs, and nothing else may change.
				allowed := map[inKey]bool{}
				for k := range m.inputs["c1"] {
					allowed[k] = true
				}
				for _, in := range d.inputs {
					allowed[inKey{string(in.Namespace), string(in.Type), string(in.ID.ValueOrZero()), in.ID.IsPresent()}] = true
				}
				g, _ := rt.GetDependencyGraph()
				m.inputs["c1"] = map[inKey]int{}
				for _, e := range g.Edges {
					if e.ControllerName != "c1" || e.EdgeType < controller.EdgeInputStrong {
						continue
					}
					k := inKey{e.ResourceNamespace, e.ResourceType, e.ResourceID, e.ResourceID != ""}
					if !allowed[k] {
						fail("api/update-invented-input", "failed UpdateInputs left input %v which was neither present nor requested", k)
					}
					kind := map[controller.DependencyEdgeType]int{controller.EdgeInputStrong: controller.InputStrong, controller.EdgeInputWeak: controller.InputWeak, controller.EdgeInputDestroyReady: controller.InputDestroyReady}[e.EdgeType]
					m.inputs["c1"][k] = kind
				}
			}
			g, gerr := rt.GetDependencyGraph()
			if gerr != nil {
				fail("api/graph", "graph export failed: %v", gerr)
				break
			}
			if got := strings.Join(graphEdges(g), "; "); got != m.canon() {
				if rerr != nil {
					fail("api/rejected-registration-changed-graph", "step %d (%s) was rejected (%v) but changed the dependency graph: {%s}, expected {%s}", pos, d.name, rerr, got, m.canon())
				} else {
					fail("api/graph-mismatch", "after step %d (%s) the graph is {%s}, expected {%s}", pos, d.name, got, m.canon())
				}
				break
			}
			if started {
				vrt.WaitQuiescent()
			}
		}
		if x.Failed() {
			cancel()
			vrt.WaitQuiescent()
			return
		}
		if !started {
			start()
		}
		vrt.WaitQuiescent()
		// one write per (type,id); exactly the controllers with a matching input must be woken
		type tgt struct {
			typ resource.Type
			id  string
			mk  func() resource.Resource
		}
		for _, w := range []tgt{
			{t1, "a", func() resource.Resource { return conformance.NewIntResource(hx.NS, "a", 1) }},
			{t1, "b", func() resource.Resource { return conformance.NewIntResource(hx.NS, "b", 1) }},
			{t2, "a", func() resource.Resource { return conformance.NewStrResource(hx.NS, "a", "x") }},
		} {
			before := map[string]int{}
			for n, p := range probes {
				before[n] = p.Reconciles
			}
			qbefore := map[string]int{}
			for n, p := range qprobes {
				qbefore[n] = len(p.Reconciles) + len(p.Maps)
			}
			if err := st.Create(ctx, w.mk()); err != nil {
				panic(err)
			}
			vrt.WaitQuiescent()
			wantWoken := map[string]bool{}
			for _, c := range m.dependents(hx.NS, string(w.typ), w.id) {
				wantWoken[c] = true
			}
			for n, p := range probes {
				woken := p.Reconciles > before[n]
				// destroy-ready inputs only wake on tearing-down resources without finalizers: a creation wakes the
				// controller iff one of its matching inputs (kind-wide or by ID) is not destroy-ready
				matchesDR, matchesOther := false, false
				for _, k := range []inKey{{hx.NS, string(w.typ), "", false}, {hx.NS, string(w.typ), w.id, true}} {
					if kind, ok := m.inputs[n][k]; ok {
						if kind == controller.InputDestroyReady {
							matchesDR = true
						} else {
							matchesOther = true
						}
					}
				}
				if matchesDR && !matchesOther {
					if woken {
						fail("api/wake", "controller %s (destroy-ready input) was woken by the creation of %s/%s", n, w.typ, w.id)
					}
					continue
				}
				if woken != wantWoken[n] {
					fail("api/wake", "write to %s/%s: controller %s woken=%v, expected %v (graph {%s})", w.typ, w.id, n, woken, wantWoken[n], m.canon())
				}
			}
			for n, p := range qprobes {
				woken := len(p.Reconciles)+len(p.Maps) > qbefore[n]
				if woken != wantWoken[n] {
					fail("api/wake", "write to %s/%s: queue controller %s notified=%v, expected %v (graph {%s})", w.typ, w.id, n, woken, wantWoken[n], m.canon())
				}
			}
		}
		cancel()
		vrt.WaitQuiescent()
		if !runDone {
			fail("api/shutdown", "Run did not return after cancel")
		}
	})
	for _, p := range res.Panics {
		first, _, _ := strings.Cut(p, "\n")
		x.FailKey("api/process-crash", "sequence %s: a runtime goroutine panicked (process would crash): %s\n%s", label, first, p)
	}
	if len(res.Live) > 0 && !x.Failed() {
		x.FailKey("api/leak", "sequence %s: goroutines alive at the end: %v", label, res.Live)
	}
	x.Add("transitions", res.Steps)
}

// concScenario: a registration (accepted or rejected) runs while change notifications for the same kind are
// in flight on a started runtime. All schedules up to the bound: event delivery must neither crash nor lose
// or invent a notification, and the graph must end as the model says.
func concScenario(reg int, bounds []int) explore.Scenario {
	ds := decls()
	d := ds[reg]
	return explore.Scenario{
		Name:   fmt.Sprintf("conc/register-%s-vs-delivery", d.name),
		Desc:   fmt.Sprintf("runtime started with c1 (input %s); a writer creates %s/a and %s/b while %s is registered concurrently; every schedule up to the preemption bound: no goroutine panics, c1 is woken, the graph equals the model, a rejected registration leaves nothing behind", t1, t1, t1, d.name),
		Bounds: bounds,
		HB:     true,
		Body: func(x *explore.X) {
			ctx, cancel := vctx.WithCancel(context.Background())
			st := state.WrapCore(namespaced.NewState(inmem.Build))
			rt, err := runtime.NewRuntime(st, zap.NewNop(), options.WithMetrics(false))
			if err != nil {
				panic(err)
			}
			vrt.Branching(false)
			m := newDBModel()
			registered := map[string]bool{}
			c1 := &px.Probe{NameV: "c1", InputsV: ds[0].inputs, OutputsV: ds[0].outputs}
			if err := rt.RegisterController(c1); err != nil {
				panic(err)
			}
			accept(m, registered, ds[0])
			// a second bystander, subscribed by ID: the by-ID dependents come after the by-kind ones (and so
			// after the controller being registered) in what event delivery walks
			gd := decl{name: "g", inputs: []controller.Input{rin(t1, "a", controller.InputWeak)}}
			g := &px.Probe{NameV: gd.name, InputsV: gd.inputs}
			if err := rt.RegisterController(g); err != nil {
				panic(err)
			}
			accept(m, registered, gd)
			runDone := false
			vrt.GoNamed("runtime.Run", func() { rt.Run(ctx); runDone = true }) //nolint:errcheck
			vrt.WaitQuiescent()
			before, gBefore := c1.Reconciles, g.Reconciles
			vrt.Branching(true)
			var rerr error
			var newProbe *px.Probe
			var newQ *px.QProbe
			vrt.GoNamed("registrar", func() {
				vrt.TouchKey("c17.reg", true)
				if d.q {
					newQ = &px.QProbe{NameV: d.name, SettingsV: controller.QSettings{Inputs: d.inputs, Outputs: d.outputs}}
					if d.conc == -1 {
						newQ.SettingsV.Concurrency = optional.Some(uint(0))
					}
					newQ.OnMap = func(context.Context, controller.QRuntime, controller.ReducedResourceMetadata) ([]resource.Pointer, error) {
						return nil, nil
					}
					rerr = rt.RegisterQController(newQ)
					vrt.TouchKey("c17.reg", true)
				} else {
					newProbe = &px.Probe{NameV: d.name, InputsV: d.inputs, OutputsV: d.outputs}
					rerr = rt.RegisterController(newProbe)
					vrt.TouchKey("c17.reg", true)
				}
			})
			vrt.GoNamed("writer", func() {
				if err := st.Create(ctx, conformance.NewIntResource(hx.NS, "a", 1)); err != nil {
					panic(err)
				}
				vrt.Yield()
				if err := st.Create(ctx, conformance.NewIntResource(hx.NS, "b", 1)); err != nil {
					panic(err)
				}
			})
			vrt.WaitQuiescent()
			vrt.Branching(false)
			vrt.TouchKey("c17.reg", true)
			vrt.TouchKey("px.records", false)
			want := accept(m, registered, d)
			if (rerr == nil) != want {
				x.FailKey("conc/verdict", "registration of %s under concurrent delivery: err=%v, model accepts=%v", d.name, rerr, want)
			}
			if g, gerr := rt.GetDependencyGraph(); gerr != nil {
				x.FailKey("conc/graph", "graph export failed: %v", gerr)
			} else if got := strings.Join(graphEdges(g), "; "); got != m.canon() {
				x.FailKey("conc/graph", "after concurrent registration of %s (err=%v) the graph is {%s}, expected {%s}", d.name, rerr, got, m.canon())
			}
			if g.Reconciles <= gBefore {
				x.FailKey("conc/lost-wake", "g (subscribed to %s/a by ID) was not woken by the creation of %s/a while %s was being registered", t1, t1, d.name)
			}
			if c1.Reconciles <= before {
				x.FailKey("conc/lost-wake", "c1 was not woken by the creation of %s/a and /b while %s was being registered", t1, d.name)
			}
			x.Outcome("err=%v c1=%d", rerr != nil, c1.Reconciles-before)
			// a later write must still be delivered (delivery is alive) to exactly the right controllers
			b2 := c1.Reconciles
			nb := 0
			if newProbe != nil {
				nb = newProbe.Reconciles
			}
			if err := st.Create(ctx, conformance.NewIntResource(hx.NS, "c", 1)); err != nil {
				panic(err)
			}
			vrt.WaitQuiescent()
			if c1.Reconciles <= b2 {
				x.FailKey("conc/delivery-dead", "after the concurrent registration of %s a write to %s/c no longer wakes c1", d.name, t1)
			}
			if newProbe != nil && rerr != nil && newProbe.Reconciles > nb {
				x.FailKey("conc/rejected-woken", "rejected controller %s is still notified", d.name)
			}
			cancel()
			vrt.WaitQuiescent()
			if !runDone {
				x.FailKey("conc/shutdown", "Run did not return after cancel")
			}
		},
	}
}

// twoRegistrars: two registrations race on a started runtime. Every schedule must equal one of the two
// sequential orders: verdicts, exported graph, and who is woken afterwards.
func twoRegistrars(da, db decl, bounds []int) explore.Scenario {
	ds := decls()
	return explore.Scenario{
		Name:   fmt.Sprintf("conc/register-%s(%v)-vs-register-%s(%v)", da.name, da.outputs, db.name, db.outputs),
		Desc:   fmt.Sprintf("runtime started with c1; %s and %s are registered concurrently; every schedule up to the bound: the two verdicts and the exported graph equal one of the two sequential orders of the model, nothing panics, a later write wakes exactly the model's dependents", da.name, db.name),
		Bounds: bounds,
		HB:     true,
		Body: func(x *explore.X) {
			ctx, cancel := vctx.WithCancel(context.Background())
			st := state.WrapCore(namespaced.NewState(inmem.Build))
			rt, err := runtime.NewRuntime(st, zap.NewNop(), options.WithMetrics(false))
			if err != nil {
				panic(err)
			}
			vrt.Branching(false)
			m0 := newDBModel()
			reg0 := map[string]bool{}
			c1 := &px.Probe{NameV: "c1", InputsV: ds[0].inputs, OutputsV: ds[0].outputs}
			if err := rt.RegisterController(c1); err != nil {
				panic(err)
			}
			accept(m0, reg0, ds[0])
			runDone := false
			vrt.GoNamed("runtime.Run", func() { rt.Run(ctx); runDone = true }) //nolint:errcheck
			vrt.WaitQuiescent()
			vrt.Branching(true)
			errs := [2]error{}
			probes := map[string]*px.Probe{"c1": c1}
			qprobes := map[string]*px.QProbe{}
			for i, d := range []decl{da, db} {
				vrt.GoNamed("registrar-"+d.name, func() {
					vrt.TouchKey("c17.reg", true)
					if d.q {
						qp := &px.QProbe{NameV: d.name, SettingsV: controller.QSettings{Inputs: d.inputs, Outputs: d.outputs}}
						if d.conc == -1 {
							qp.SettingsV.Concurrency = optional.Some(uint(0))
						}
						qp.OnMap = func(context.Context, controller.QRuntime, controller.ReducedResourceMetadata) ([]resource.Pointer, error) {
							return nil, nil
						}
						errs[i] = rt.RegisterQController(qp)
						vrt.TouchKey("c17.reg", true)
						if errs[i] == nil {
							qprobes[d.name] = qp
						}
					} else {
						p := &px.Probe{NameV: d.name, InputsV: d.inputs, OutputsV: d.outputs}
						errs[i] = rt.RegisterController(p)
						vrt.TouchKey("c17.reg", true)
						if errs[i] == nil {
							probes[d.name] = p
						}
					}
				})
			}
			vrt.WaitQuiescent()
			vrt.Branching(false)
			vrt.TouchKey("c17.reg", true)
			vrt.TouchKey("px.records", false)
			g, gerr := rt.GetDependencyGraph()
			if gerr != nil {
				x.FailKey("conc2/graph", "graph export failed: %v", gerr)
				return
			}
			got := strings.Join(graphEdges(g), "; ")
			var m *dbModel
			var why []string
			for _, order := range [][2]int{{0, 1}, {1, 0}} {
				mm := newDBModel()
				rr := map[string]bool{}
				accept(mm, rr, ds[0])
				want := [2]bool{}
				for _, k := range order {
					want[k] = accept(mm, rr, []decl{da, db}[k])
				}
				if (errs[0] == nil) != want[0] || (errs[1] == nil) != want[1] {
					why = append(why, fmt.Sprintf("order %v gives accepted=%v", order, want))
					continue
				}
				if got != mm.canon() {
					why = append(why, fmt.Sprintf("order %v matches the verdicts but its graph is {%s}", order, mm.canon()))
					continue
				}
				m = mm
				break
			}
			if m == nil {
				x.FailKey("conc2/not-serializable", "concurrent registration of %s (err=%v) and %s (err=%v): graph {%s}; no sequential order explains it (%s)", da.name, errs[0], db.name, errs[1], got, strings.Join(why, "; "))
				cancel()
				vrt.WaitQuiescent()
				return
			}
			x.Outcome("a=%v b=%v", errs[0] == nil, errs[1] == nil)
			before := map[string]int{}
			for n, p := range probes {
				before[n] = p.Reconciles
			}
			qbefore := map[string]int{}
			for n, p := range qprobes {
				qbefore[n] = len(p.Reconciles) + len(p.Maps)
			}
			if err := st.Create(ctx, conformance.NewIntResource(hx.NS, "a", 1)); err != nil {
				panic(err)
			}
			vrt.WaitQuiescent()
			vrt.TouchKey("px.records", false)
			wantWoken := map[string]bool{}
			for _, c := range m.dependents(hx.NS, string(t1), "a") {
				wantWoken[c] = true
			}
			for n, p := range probes {
				if k, ok := m.inputs[n][inKey{hx.NS, string(t1), "", false}]; ok && k == controller.InputDestroyReady && len(m.inputs[n]) == 1 {
					continue
				}
				if woken := p.Reconciles > before[n]; woken != wantWoken[n] {
					x.FailKey("conc2/wake", "after concurrent registration of %s and %s: write to %s/a: controller %s woken=%v, expected %v (graph {%s})", da.name, db.name, t1, n, woken, wantWoken[n], m.canon())
				}
			}
			for n, p := range qprobes {
				if woken := len(p.Reconciles)+len(p.Maps) > qbefore[n]; woken != wantWoken[n] {
					x.FailKey("conc2/wake", "after concurrent registration of %s and %s: write to %s/a: queue controller %s notified=%v, expected %v", da.name, db.name, t1, n, woken, wantWoken[n])
				}
			}
			cancel()
			vrt.WaitQuiescent()
			if !runDone {
				x.FailKey("conc2/shutdown", "Run did not return after cancel")
			}
		},
	}
}

func apiScenario(first int, maxLen int) explore.Scenario {
	ds := decls()
	return explore.Scenario{
		Name:       fmt.Sprintf("api/first=%02d-%s/len<=%d", first, ds[first].name, maxLen),
		Desc:       fmt.Sprintf("all sequences of <= %d RegisterController/RegisterQController/UpdateInputs calls starting with %s over %d valid and invalid declarations, runtime started at every position; real runtime on the deterministic default schedule, run to quiescence; graph, wake-ups and crash-freedom checked", maxLen, ds[first].name, len(ds)),
		Sequential: true,
		Body: func(x *explore.X) {
			n := 0
			var rec func(seq []int)
			rec = func(seq []int) {
				for startAt := 0; startAt <= len(seq); startAt++ {
					runSequence(x, seq, startAt)
					n++
				}
				if len(seq) == maxLen {
					return
				}
				for i := range ds {
					rec(append(append([]int{}, seq...), i))
				}
			}
			rec([]int{first})
			x.Add("states", n)
			x.Add("evaluations", n)
			x.Add("distinct_nontrivial", n)
			x.Add("traces_validated_against_impl", n)
			x.Sample(map[string]any{"sequence_prefix": ds[first].name, "runs": n})
			x.Outcome("runs=%d", n)
		},
	}
}

func build(tier string) []explore.Scenario {
	depth, maxLen := 4, 3
	if tier == "thorough" {
		depth, maxLen = 5, 4
	}
	out := []explore.Scenario{{
		Name:       fmt.Sprintf("depdb/bfs/depth%d", depth),
		Desc:       "white-box BFS over AddControllerOutput / AddControllerInput / DeleteControllerInput (controllers A,B; types T1,T2; ids none,a,b; all kinds) with every query compared with a set-based model after each step",
		Sequential: true,
		Body: func(x *explore.X) {
			res := seqx.BFS(func() seqx.Inst {
				db, err := runtime.VerifNewDepDB()
				if err != nil {
					panic(err)
				}
				return &dbInst{db: db, m: newDBModel()}
			}, depth, 16, 3)
			x.Add("states", res.States)
			x.Add("transitions", res.Transitions)
			x.Add("evaluations", res.Transitions)
			x.Add("distinct_nontrivial", res.States)
			x.Add("traces_validated_against_impl", res.Transitions)
			for _, h := range res.SampleHist {
				x.Sample(map[string]any{"history": h})
			}
			x.Outcome("states=%d transitions=%d", res.States, res.Transitions)
			for _, v := range res.Violations {
				x.FailKey("depdb", "%s", v.String())
			}
		},
	}}
	for i := range decls() {
		out = append(out, apiScenario(i, maxLen))
	}
	cb := []int{0, 1, 2}
	if tier == "thorough" {
		cb = []int{0, 1, 2, 3}
	}
	for i, d := range decls() {
		if d.update || i == 0 || d.name == "c1" {
			continue
		}
		b := cb
		sc := concScenario(i, b)
		if d.name == "q1" {
			// the one accepted queue controller: it starts workers, the schedule space is two orders larger
			sc.Bounds = []int{0}
			sc.MaxExecs = 60000
			if tier == "thorough" {
				sc.Bounds = []int{0, 1}
				sc.MaxExecs = 6000000
			}
		}
		out = append(out, sc)
	}
	// two racing registrations: conflicting outputs (c5/c6 vs c2, exclusive vs shared on o1/o2), same name, a
	// rejected one next to an accepted one
	ex2 := []controller.Output{{Type: o2, Kind: controller.OutputExclusive}}
	sh2 := []controller.Output{{Type: o2, Kind: controller.OutputShared}}
	c7 := decl{name: "c7", inputs: []controller.Input{rin(t2, "", controller.InputWeak)}, outputs: ex2}
	c8 := decl{name: "c8", inputs: []controller.Input{rin(t1, "a", controller.InputWeak)}, outputs: sh2}
	c9 := decl{name: "c9", inputs: []controller.Input{rin(t1, "", controller.InputStrong)}, outputs: ex2}
	c10 := decl{name: "c10", inputs: []controller.Input{rin(t1, "", controller.InputWeak)}, outputs: sh2}
	c7b := decl{name: "c7", inputs: []controller.Input{rin(t1, "", controller.InputWeak)}, outputs: sh2} // same name as c7
	bad := decls()[2]                                                                                    // c3-dupkeys: claims o2, then fails on its second input
	pairs := [][2]decl{{c7, c8}, {c7, c9}, {c8, c10}, {c7, c7b}, {bad, c8}, {bad, c9}}
	pb := []int{0, 1, 2}
	if tier == "thorough" {
		pb = []int{0, 1, 2, 3}
	}
	for _, pr := range pairs {
		sc := twoRegistrars(pr[0], pr[1], pb)
		sc.MaxExecs = 80000
		if tier == "thorough" {
			sc.MaxExecs = 5000000
		}
		out = append(out, sc)
	}
	return out
}

func main() {
	explore.Main(explore.Config{
		Property:     "C17",
		RequireShims: true,
		Technique:    "explicit-state BFS over dependency-database operations vs a set model (white-box facade) + exhaustive enumeration of registration sequences on the real runtime, run to exact quiescence on the controlled scheduler",
		Rule:         "BFS: every operation from every reachable model state; API: every sequence up to the length over 14 declarations x every start position; non-trivial = distinct states / sequences",
		Assume:       []string{"API part runs the deterministic default schedule (registration is sequential by nature); concurrency of delivery is C05's subject"},
		Extra:        map[string]any{"explanation": "states = distinct model states (BFS) + registration sequences run; transitions = database operations applied + scheduler steps of the runtime runs"},
	}, build)
}
