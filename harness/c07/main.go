// Harness C07: see package tx.
package main

import (
	"verif.local/explore"
	"verif.local/harness/tx"
)

func main() {
	explore.Main(explore.Config{
		Property:  "C07",
		Technique: "stateless model checking of the real runtime + real transform/qtransform/cleanup controllers under a controlled scheduler; safety oracle on every prefix of the totally ordered commit log (finalizer before output, teardown before destroy, cleanup release only after outputs are gone)",
		Rule:      "one execution per schedule of an external actor script against the real runtime and the real generic controllers (transform with/without input finalizers and with ignored tearing-down inputs, qtransform incl. teardown-ignoring options, cleanup); non-trivial = schedule differs from the default",
		Assume: []string{
			"deterministic start-up, then free switches at every external operation and every blocking point of the pipeline; preemption bound as reported",
			"back-off timers fire when nothing else is enabled, up to a horizon of 10 minutes of virtual time",
			"commit order = order of BackingStore.Put/Destroy calls made under the collection lock",
		},
	}, func(tier string) []explore.Scenario { return tx.Build("C07", tier) })
}
