// Harness C12: bookmarks resume exactly; stale/foreign bookmarks rejected; tails exact.
package main

import (
	"bytes"
	"context"
	"encoding/binary"
	"fmt"
	"strings"

	"github.com/cosi-project/runtime/pkg/controller/conformance"
	"github.com/cosi-project/runtime/pkg/resource"
	"github.com/cosi-project/runtime/pkg/state"
	"github.com/cosi-project/runtime/pkg/state/impl/inmem"
	"verif.local/explore"
	"verif.local/harness/hx"
	"verif.local/harness/wx"
	"verif.local/vrt"
)

const typ = conformance.IntResourceType

type ringCfg struct{ initial, max, gap int }

func (c ringCfg) String() string { return fmt.Sprintf("cap%d-max%d-gap%d", c.initial, c.max, c.gap) }

// capAt is the ring capacity after n events were published (growth only on the first lap).
func (c ringCfg) capAt(n int) int {
	cp := c.initial
	for w := 0; w < n; w++ {
		if w == cp && cp < c.max {
			cp *= 2
			if cp > c.max {
				cp = c.max
			}
		}
	}
	return cp
}

func write(ctx context.Context, st state.State, i int) {
	upd := func(id string) {
		if _, err := st.UpdateWithConflicts(ctx, hx.IntPtr(id), func(r resource.Resource) error {
			r.(*conformance.IntResource).SetValue(r.(*conformance.IntResource).Value() + 10)
			return nil
		}); err != nil {
			panic(err)
		}
	}
	var err error
	switch i % 10 {
	case 0:
		err = st.Create(ctx, conformance.NewIntResource(hx.NS, "a", 1))
	case 1, 3, 7:
		upd("a")
	case 2:
		err = st.Create(ctx, conformance.NewIntResource(hx.NS, "b", 2))
	case 4:
		err = st.Destroy(ctx, hx.IntPtr("a"))
	case 5:
		err = st.Create(ctx, conformance.NewIntResource(hx.NS, "a", 3))
	case 6:
		upd("b")
	case 8:
		err = st.Destroy(ctx, hx.IntPtr("b"))
	case 9:
		err = st.Destroy(ctx, hx.IntPtr("a")) // back to the empty state: the script is a cycle
	}
	if err != nil {
		panic(err)
	}
}

type ev struct {
	e  wx.Ev
	bm []byte // the bookmark as delivered (the consumer's to keep)
	// bmAtDelivery: a private copy taken on delivery; the delivered slice must still hold these bytes when it
	// is used, however many events were published meanwhile (seed c12i: bookmarks cut from a reused slab)
	bmAtDelivery []byte
}

// collector drains a watch channel into a slice.
type collector struct {
	name    string
	got     []ev
	errored bool
	err     error // establishment error
}

func (c *collector) take(e state.Event) {
	if c.errored {
		c.got = append(c.got, ev{e: wx.Ev{Type: "AFTER-ERRORED"}})
		return
	}
	if e.Type == state.Errored {
		c.errored = true
		return
	}
	c.got = append(c.got, ev{wx.Render(e), e.Bookmark, bytes.Clone(e.Bookmark)})
}

func (c *collector) evs() []wx.Ev {
	out := make([]wx.Ev, len(c.got))
	for i, g := range c.got {
		out[i] = g.e
	}
	return out
}

const (
	fID = iota
	fKind
	fAgg
)

var fNames = []string{"watch-id", "watch-kind", "watch-kind-agg"}

func start(ctx context.Context, st state.State, f int, name string, bm state.Bookmark, tail int, bootstrap bool, bootBookmark ...bool) *collector {
	c := &collector{name: name}
	ch, ach := make(chan state.Event), make(chan []state.Event)
	switch f {
	case fID:
		var o []state.WatchOption
		if bm != nil {
			o = append(o, state.WithStartFromBookmark(bm))
		}
		if tail > 0 {
			o = append(o, state.WithTailEvents(tail))
		}
		c.err = st.Watch(ctx, hx.IntPtr("a"), ch, o...)
	default:
		var o []state.WatchKindOption
		if bm != nil {
			o = append(o, state.WithKindStartFromBookmark(bm))
		}
		if tail > 0 {
			o = append(o, state.WithKindTailEvents(tail))
		}
		if bootstrap {
			o = append(o, state.WithBootstrapContents(true))
		}
		if len(bootBookmark) > 0 && bootBookmark[0] {
			o = append(o, state.WithBootstrapBookmark(true))
		}
		if f == fKind {
			c.err = st.WatchKind(ctx, hx.IntKind(), ch, o...)
		} else {
			c.err = st.WatchKindAggregated(ctx, hx.IntKind(), ach, o...)
		}
	}
	if c.err != nil {
		return c
	}
	vrt.Go(func() {
		for {
			rc, ra := vrt.RecvCase((<-chan state.Event)(ch)), vrt.RecvCase((<-chan []state.Event)(ach))
			switch vrt.Select(false, vrt.RecvCase(ctx.Done()), rc, ra) {
			case 0:
				return
			case 1:
				c.take(rc.Value)
			case 2:
				for _, e := range ra.Value {
					c.take(e)
				}
			}
		}
	})
	return c
}

// expectedFrom is the event sequence for commits [from, len) (restricted to id a for the id flavour).
func expectedFrom(f int, commits []hx.Commit, from int) []wx.Ev {
	states := wx.States(commits)
	var out []wx.Ev
	for k := from; k < len(commits); k++ {
		if f == fID && commits[k].ID != "a" {
			continue
		}
		out = append(out, wx.EventOf(states, commits, k))
	}
	return out
}

func evEqual(a, b []wx.Ev) bool {
	if len(a) != len(b) {
		return false
	}
	for i := range a {
		if a[i] != b[i] {
			return false
		}
	}
	return true
}

func posOf(bm []byte) int64 { return int64(binary.BigEndian.Uint64(bm[8:])) }

func mkBookmark(cookie []byte, pos int64) []byte {
	return binary.BigEndian.AppendUint64(bytes.Clone(cookie), uint64(pos))
}

func runCase(x *explore.X, cfg ringCfg, w, further int) int {
	label := fmt.Sprintf("%v writes=%d further=%d", cfg, w, further)
	fail := func(key, format string, a ...any) {
		x.FailKey(key, "%s: %s", label, fmt.Sprintf(format, a...))
	}
	res := vrt.Run(nil, vrt.Options{}, func() {
		ctx, cancel := context.WithCancel(context.Background())
		defer cancel()
		log := &hx.Log{}
		st := state.WrapCore(hx.NewInmem(log, inmem.WithHistoryInitialCapacity(cfg.initial), inmem.WithHistoryMaxCapacity(cfg.max), inmem.WithHistoryGap(cfg.gap)))
		// recorders from the very beginning (they keep up: quiescence after every write)
		rec := []*collector{start(ctx, st, fID, "rec-id", nil, 0, false), start(ctx, st, fKind, "rec-kind", nil, 0, false), start(ctx, st, fAgg, "rec-agg", nil, 0, false)}
		boot := start(ctx, st, fKind, "bootstrap-on-empty-log", nil, 0, true)
		vrt.WaitQuiescent()
		for i := 0; i < w; i++ {
			write(ctx, st, i)
			vrt.WaitQuiescent()
		}
		commits := log.OfType(typ)
		n := len(commits)
		for f, r := range rec {
			if r.err != nil || r.errored {
				fail("c12/recorder", "recorder %s failed (%v, errored=%v)", r.name, r.err, r.errored)
				return
			}
			got := r.evs()
			if f == fID {
				got = got[1:] // initial event
			}
			if !evEqual(got, expectedFrom(f, commits, 0)) {
				fail("c12/recorder", "recorder %s stream differs from the commit log: %v", r.name, got)
				return
			}
		}
		var cookie []byte
		if len(boot.got) > 0 {
			cookie = bytes.Clone(boot.got[len(boot.got)-1].bm[:8])
		}
		curCap := cfg.capAt(n)
		type probe struct {
			c       *collector
			f       int
			pos     int64 // bookmark position (events after it are expected)
			must    bool  // must be accepted (recent enough)
			mustNot bool  // must be rejected (malformed / ahead of the log / before -1)
			what    string
		}
		var probes []*probe
		// every delivered bookmark of every flavour (plus the bootstrap -1 bookmark)
		for f, r := range rec {
			for i, g := range r.got {
				if g.bm == nil {
					continue
				}
				if !bytes.Equal(g.bm, g.bmAtDelivery) {
					fail("c12/bookmark-changed-after-delivery", "the bookmark delivered with event %d of %s was %x and reads %x after %d more events: a held bookmark no longer names its own position", i, r.name, g.bmAtDelivery, g.bm, n-i)
					return
				}
				p := posOf(g.bm)
				recent := int64(n)-p <= int64(cfg.initial-cfg.gap)
				probes = append(probes, &probe{f: f, pos: p, must: recent, what: fmt.Sprintf("bookmark of event %d (pos %d) of %s", i, p, r.name),
					c: start(ctx, st, f, "resume", g.bm, 0, false)})
			}
		}
		if len(boot.got) > 0 && boot.got[len(boot.got)-1].e.Type == "Bootstrapped" {
			bm := boot.got[len(boot.got)-1].bm
			for _, f := range []int{fKind, fAgg} {
				probes = append(probes, &probe{f: f, pos: posOf(bm), must: int64(n)-posOf(bm) <= int64(cfg.initial-cfg.gap), what: fmt.Sprintf("bootstrap bookmark (pos %d) on %s", posOf(bm), fNames[f]),
					c: start(ctx, st, f, "resume-boot", bm, 0, false)})
			}
		}
		// derived byte strings (only once per configuration/history)
		if further == 0 && cookie != nil {
			valid := mkBookmark(cookie, int64(n-1))
			var cands [][]byte
			for l := 0; l < 16; l++ {
				cands = append(cands, bytes.Clone(valid[:l]))
			}
			cands = append(cands, append(bytes.Clone(valid), 0))
			for off := 0; off < 16; off++ {
				for _, v := range []byte{0x00, 0xff, valid[off] ^ 1} {
					if v != valid[off] {
						t := bytes.Clone(valid)
						t[off] = v
						cands = append(cands, t)
					}
				}
			}
			for p := int64(-3); p <= int64(n)+2; p++ {
				cands = append(cands, mkBookmark(cookie, p))
			}
			for _, cand := range cands {
				for f := range fNames {
					pr := &probe{f: f, what: fmt.Sprintf("bookmark bytes %x on %s", cand, fNames[f])}
					wellFormed := len(cand) == 16 && bytes.Equal(cand[:8], cookie)
					if wellFormed {
						pr.pos = posOf(cand)
						lo := int64(0)
						if f != fID {
							lo = -1
						}
						switch {
						case pr.pos < lo || pr.pos >= int64(n):
							pr.mustNot = true
						case int64(n)-pr.pos <= int64(cfg.initial-cfg.gap):
							pr.must = true
						}
					} else {
						pr.mustNot = true
					}
					pr.c = start(ctx, st, f, "cand", cand, 0, false)
					probes = append(probes, pr)
				}
			}
		}
		// tails
		type tailProbe struct {
			c  *collector
			f  int
			n  int
			bb bool // with WithBootstrapBookmark: a leading Noop whose bookmark is the position before the replay
		}
		var tails []*tailProbe
		if further <= 1 {
			for f := range fNames {
				for t := 1; t <= curCap+2; t++ {
					tails = append(tails, &tailProbe{f: f, n: t, c: start(ctx, st, f, "tail", nil, t, false)})
					if f != fID {
						tails = append(tails, &tailProbe{f: f, n: t, bb: true, c: start(ctx, st, f, "tail+bootstrap-bookmark", nil, t, false, true)})
					}
				}
			}
		}
		vrt.WaitQuiescent()
		for i := 0; i < further; i++ {
			write(ctx, st, w+i)
			vrt.WaitQuiescent()
		}
		commits = log.OfType(typ)
		for _, p := range probes {
			c := p.c
			switch {
			case c.err != nil:
				if !state.IsInvalidWatchBookmarkError(c.err) {
					fail("c12/reject-class", "%s: rejected with %v, which is not an invalid-bookmark error", p.what, c.err)
				}
				if p.must {
					fail("c12/recent-rejected", "%s: rejected (%v) although it is one of the most recent %d events (initial capacity %d - gap %d), log length %d", p.what, c.err, cfg.initial-cfg.gap, cfg.initial, cfg.gap, n)
				}
				if len(c.got) > 0 {
					fail("c12/reject-delivers", "%s: rejected but events were delivered", p.what)
				}
			case p.mustNot:
				fail("c12/accepted-invalid", "%s: accepted although it is malformed, foreign, ahead of the log (length %d) or before its start; delivered %v", p.what, n, c.evs())
			default:
				want := expectedFrom(p.f, commits, int(p.pos)+1)
				got := c.evs()
				okPrefix := len(got) <= len(want) && evEqual(got, want[:len(got)])
				switch {
				case !okPrefix:
					fail("c12/resume-gap", "%s: accepted, but the resumed stream %v is not the events that followed it %v (gap, duplicate or reorder)", p.what, got, want)
				case len(got) != len(want) && !c.errored:
					fail("c12/resume-short", "%s: resumed stream stopped after %d of %d events without Errored", p.what, len(got), len(want))
				case c.errored && p.must:
					fail("c12/recent-errored", "%s: accepted but errored although recent", p.what)
				}
				// each resumed event carries the same usable bookmark as the original stream
				for i, g := range c.got {
					if g.bm == nil {
						fail("c12/resume-nobookmark", "%s: resumed event %d has no bookmark", p.what, i)
					}
				}
			}
		}
		retained := curCap - cfg.gap
		if retained > n {
			retained = n
		}
		if retained < 0 {
			retained = 0
		}
		for _, tp := range tails {
			if tp.c.err != nil {
				fail("c12/tail-error", "tail %d on %s failed: %v", tp.n, fNames[tp.f], tp.c.err)
				continue
			}
			// the last min(N, ...) events among the retained window, then the live ones
			window := expectedFrom(tp.f, commits[:n], n-retained)
			k := tp.n
			if k > len(window) {
				k = len(window)
			}
			want := append(append([]wx.Ev{}, window[len(window)-k:]...), expectedFrom(tp.f, commits, n)...)
			if tp.bb {
				// the leading Noop carries the position right before the first replayed event: resuming from it
				// must give exactly what followed it here
				if len(tp.c.got) == 0 || tp.c.got[0].e.Type != "Noop" || tp.c.got[0].bm == nil {
					fail("c12/tail-bootstrap-bookmark", "tail %d with bootstrap bookmark on %s: the stream does not start with a bookmark-only event: %v", tp.n, fNames[tp.f], tp.c.evs())
					continue
				}
				if got, wantPos := posOf(tp.c.got[0].bm), int64(n-k)-1; got != wantPos {
					fail("c12/tail-bootstrap-bookmark", "tail %d with bootstrap bookmark on %s (log length %d): the initial bookmark is position %d, the replay starts at %d, so it must be %d (a client resuming from it would skip or repeat the replayed events)", tp.n, fNames[tp.f], n, got, n-k, wantPos)
				}
				want = append([]wx.Ev{{Type: "Noop"}}, want...)
			}
			if got := tp.c.evs(); !evEqual(got, want) || tp.c.errored {
				fail("c12/tail", "tail %d on %s (log length %d, capacity %d, gap %d): delivered %v (errored=%v), expected exactly %v", tp.n, fNames[tp.f], n, curCap, cfg.gap, got, tp.c.errored, want)
			}
		}
		x.Add("evaluations", len(probes)+len(tails))
		cancel()
		vrt.WaitQuiescent()
	})
	for _, p := range res.Panics {
		first, _, _ := strings.Cut(p, "\n")
		x.FailKey("c12/panic", "%s: a watch goroutine panicked (process would crash): %s\n%s", label, first, p)
	}
	return res.Steps
}

func scenario(cfg ringCfg, maxW int) explore.Scenario {
	return explore.Scenario{
		Name:       fmt.Sprintf("%v/w<=%d", cfg, maxW),
		Desc:       fmt.Sprintf("history capacity %d max %d gap %d: for every history of 0..%d scripted writes: restart (by id, kind, aggregated) from every delivered bookmark after 0,1,2 further writes and compare with the events that followed it; every truncation/extension/byte substitution of a valid bookmark and positions -3..len+2; tails 1..capacity+2", cfg.initial, cfg.max, cfg.gap, maxW),
		Sequential: true,
		Body: func(x *explore.X) {
			n, steps := 0, 0
			for w := 0; w <= maxW; w++ {
				for further := 0; further <= 2; further++ {
					steps += runCase(x, cfg, w, further)
					n++
				}
			}
			x.Add("states", n)
			x.Add("transitions", steps)
			x.Add("distinct_nontrivial", n)
			x.Add("traces_validated_against_impl", n)
			x.Sample(map[string]any{"config": cfg.String(), "history_writes": maxW, "restart_from": "every delivered bookmark", "further_writes": []int{0, 1, 2}})
			x.Outcome("cases=%d", n)
		},
	}
}

func build(tier string) []explore.Scenario {
	cfgs := []ringCfg{{1, 1, 0}, {2, 2, 0}, {2, 4, 1}, {3, 4, 2}, {1, 2, 0}, {2, 3, 1}, {2, 2, 2}, {4, 4, 5}, {4, 16, 5}, {4, 8, 0}, {3, 3, 1}}
	w := 7
	if tier == "thorough" {
		w = 12
	}
	var out []explore.Scenario
	for _, c := range cfgs {
		out = append(out, scenario(c, w))
	}
	return out
}

func main() {
	explore.Main(explore.Config{
		Property:     "C12",
		RequireShims: true,
		Technique:    "exhaustive enumeration of (history length x delivered bookmark x further writes x watch flavour), of derived bookmark byte strings and of tail sizes on the real inmem watch ring, each watch run to exact quiescence on the controlled scheduler and compared with the commit log",
		Rule:         "11 history configurations x histories of 0..7 writes x {0,1,2} further writes: every delivered bookmark restarted on 3 flavours; 100+ derived byte strings per history; every tail size 1..capacity+2; non-trivial = distinct (configuration, history, further) cases",
		Assume:       []string{"deterministic default schedule (consumers keep up); interleavings of the ring are C02's subject", "a bookmark older than the guaranteed window may be either rejected (invalid-bookmark) or accepted with the exact suffix / a loud Errored"},
		Extra:        map[string]any{"explanation": "states = (configuration, history, further writes) cases; transitions = scheduler steps; evaluations = restart/tail probes compared with the commit log"},
	}, build)
}
