// Harness C19: caller isolation — objects passed to / returned by the state never alias the store.
package main

import (
	"context"
	"fmt"
	"regexp"
	"slices"
	"sort"
	"strings"
	"time"

	"github.com/cosi-project/runtime/pkg/controller/conformance"
	"github.com/cosi-project/runtime/pkg/controller/runtime"
	"github.com/cosi-project/runtime/pkg/controller/runtime/options"
	"github.com/cosi-project/runtime/pkg/resource"
	"github.com/cosi-project/runtime/pkg/resource/kvutils"
	"github.com/cosi-project/runtime/pkg/resource/meta/spec"
	"github.com/cosi-project/runtime/pkg/resource/typed"
	"github.com/cosi-project/runtime/pkg/state"
	"github.com/cosi-project/runtime/pkg/state/impl/inmem"
	"github.com/cosi-project/runtime/pkg/state/impl/namespaced"
	"github.com/cosi-project/runtime/pkg/state/protobuf/client"
	"github.com/cosi-project/runtime/pkg/state/protobuf/server"
	"verif.local/explore"
	"verif.local/harness/hx"
	"verif.local/harness/lb"
	"verif.local/vrt"
)

// a typed resource whose spec contains a slice
type sliceSpec struct{ Items []string }

func (s sliceSpec) DeepCopy() sliceSpec { return sliceSpec{slices.Clone(s.Items)} }

type sliceExt struct{}

func (sliceExt) ResourceDefinition() spec.ResourceDefinitionSpec {
	return spec.ResourceDefinitionSpec{Type: sliceType, DefaultNamespace: hx.NS}
}

const sliceType = resource.Type("test/slice")

type sliceRes = typed.Resource[sliceSpec, sliceExt]

func newSlice(id string) *sliceRes {
	r := typed.NewResource[sliceSpec, sliceExt](resource.NewMetadata(hx.NS, sliceType, id, resource.VersionUndefined), sliceSpec{Items: []string{"x", "y"}})
	r.Metadata().Labels().Set("k", "v")
	r.Metadata().Labels().Set("k2", "v2")
	r.Metadata().Annotations().Set("ak", "av")
	r.Metadata().Finalizers().Add("f1")
	r.Metadata().Finalizers().Add("f2")
	r.Metadata().Finalizers().Add("a0") // three, and not in sorted order: comparisons that sort must sort a copy
	return r
}

func newInt(id string) *conformance.IntResource {
	r := conformance.NewIntResource(hx.NS, id, 5)
	r.Metadata().Labels().Set("k", "v")
	r.Metadata().Labels().Set("k2", "v2")
	r.Metadata().Annotations().Set("ak", "av")
	r.Metadata().Finalizers().Add("f1")
	r.Metadata().Finalizers().Add("f2")
	r.Metadata().Finalizers().Add("a0")
	return r
}

func renderMD(md *resource.Metadata) string {
	var b strings.Builder
	fmt.Fprintf(&b, "%s/%s/%s@%s owner=%q phase=%s fin=%v", md.Namespace(), md.Type(), md.ID(), md.Version(), md.Owner(), md.Phase(), []string(*md.Finalizers()))
	for _, kv := range []struct {
		n    string
		keys []string
		get  func(string) (string, bool)
	}{{"labels", md.Labels().Keys(), md.Labels().Get}, {"annotations", md.Annotations().Keys(), md.Annotations().Get}} {
		fmt.Fprintf(&b, " %s={", kv.n)
		for _, k := range kv.keys {
			v, _ := kv.get(k)
			fmt.Fprintf(&b, "%s=%s,", k, v)
		}
		b.WriteString("}")
	}
	fmt.Fprintf(&b, " created=%d updated=%d", md.Created().UnixNano(), md.Updated().UnixNano())
	return b.String()
}

func render(r resource.Resource) string {
	if r == nil {
		return "<nil>"
	}
	s := renderMD(r.Metadata())
	switch x := r.(type) {
	case *sliceRes:
		s += fmt.Sprintf(" spec=%v", x.TypedSpec().Items)
	case *conformance.IntResource:
		s += fmt.Sprintf(" spec=%d", x.Value())
	}
	return s
}

// held is an object the caller still holds.
type held struct {
	name     string
	readOnly bool               // watch event objects are shared with the store by design: observed, never mutated
	res      resource.Resource  // nil for bare metadata copies
	md       *resource.Metadata // always set
}

func (h *held) render() string {
	if h.res != nil {
		return render(h.res)
	}
	return renderMD(h.md)
}

type mutation struct {
	name string
	f    func(h *held)
}

func mutations() []mutation {
	t := time.Date(1999, 1, 1, 0, 0, 0, 0, time.UTC)
	return []mutation{
		// read-only operations on a held object: they must change nothing for anybody (they come first: the holder
		// still shares everything with the store and the other holders)
		{"Metadata.Equal(same finalizers, one replaced)", func(h *held) {
			other := h.md.Copy()
			if f := *other.Finalizers(); len(f) > 0 {
				other.Finalizers().Set(append(append(resource.Finalizers{}, f[:len(f)-1]...), "zz"))
			}
			_ = h.md.Equal(other)
			_ = other.Equal(*h.md)
		}},
		{"resource.Equal(deep copy with one finalizer replaced)", func(h *held) {
			if h.res == nil {
				return
			}
			cp := h.res.DeepCopy()
			if f := *cp.Metadata().Finalizers(); len(f) > 0 {
				cp.Metadata().Finalizers().Set(append(append(resource.Finalizers{}, f[:len(f)-1]...), "zz"))
			}
			_ = resource.Equal(h.res, cp)
			_ = resource.Equal(cp, h.res)
		}},
		{"String/Labels.Raw/Finalizers iteration (pure reads)", func(h *held) {
			_ = h.md.String()
			for range h.md.Labels().Raw() {
			}
			for range *h.md.Finalizers() {
			}
		}},
		{"labels.Set(existing key)", func(h *held) { h.md.Labels().Set("k", "CHANGED") }},
		{"labels.Set(new key)", func(h *held) { h.md.Labels().Set("new", "by "+h.name) }},
		{"labels.Delete", func(h *held) { h.md.Labels().Delete("k2") }},
		{"labels.Do(set+delete)", func(h *held) {
			h.md.Labels().Do(func(tmp kvutils.TempKV) { tmp.Set("k", "DO"); tmp.Set("d", "1"); tmp.Delete("k2") })
		}},
		{"labels.Do(Delete first, then Set)", func(h *held) {
			h.md.Labels().Do(func(tmp kvutils.TempKV) { tmp.Delete("k2"); tmp.Set("after-delete", "1") })
		}},
		{"labels.Do(Delete only)", func(h *held) { h.md.Labels().Do(func(tmp kvutils.TempKV) { tmp.Delete("k") }) }},
		{"annotations.Do(Delete first, then Set)", func(h *held) {
			h.md.Annotations().Do(func(tmp kvutils.TempKV) { tmp.Delete("ak"); tmp.Set("after-delete", "1") })
		}},
		{"annotations.Set(existing)", func(h *held) { h.md.Annotations().Set("ak", "CHANGED") }},
		{"annotations.Set(new)", func(h *held) { h.md.Annotations().Set("an", "by "+h.name) }},
		{"annotations.Delete", func(h *held) { h.md.Annotations().Delete("ak") }},
		{"finalizers.Add", func(h *held) { h.md.Finalizers().Add("ADDED-by-" + h.name) }},
		{"finalizers.Remove(first)", func(h *held) { h.md.Finalizers().Remove("f1") }},
		{"finalizers.Remove(last)", func(h *held) { h.md.Finalizers().Remove("f2") }},
		{"finalizers.Remove(the last element)", func(h *held) {
			if f := *h.md.Finalizers(); len(f) > 0 {
				h.md.Finalizers().Remove(f[len(f)-1])
			}
		}},
		{"finalizers.Remove(absent)", func(h *held) { h.md.Finalizers().Remove("never-there") }},
		{"finalizers.Set", func(h *held) { h.md.Finalizers().Set(resource.Finalizers{"S"}) }},
		// (not part of the rotating finalizer group: writing an element of the slice in place is not the copy-on-write
		// API; it stays behind the API mutations, which have given the holder its own storage by then)
		{"element write into the holder's own finalizers slice", func(h *held) {
			if f := *h.md.Finalizers(); len(f) > 0 {
				f[0] = "WRITTEN"
			}
		}},
		{"SetPhase", func(h *held) { h.md.SetPhase(resource.PhaseTearingDown) }},
		{"SetVersion", func(h *held) { h.md.SetVersion(h.md.Version().Next().Next()) }},
		{"SetOwner", func(h *held) { h.md.SetOwner("intruder") }}, //nolint:errcheck
		{"SetUpdated", func(h *held) { h.md.SetUpdated(t) }},
		{"SetCreated", func(h *held) { h.md.SetCreated(t) }},
		{"spec write", func(h *held) {
			switch x := h.res.(type) {
			case *sliceRes:
				if len(x.TypedSpec().Items) > 0 {
					x.TypedSpec().Items[0] = "WRITTEN"
				}
				x.TypedSpec().Items = append(x.TypedSpec().Items, "APPENDED")
			case *conformance.IntResource:
				x.SetValue(x.Value() + 1000)
			}
		}},
	}
}

type flavour struct {
	name  string
	slice bool
	build func() (st state.State, readers []reader)
}

// reader re-reads the store's contents by an independent path.
type reader struct {
	name string
	read func(ctx context.Context) string
}

func storeSnapshot(ctx context.Context, st state.CoreState, kind resource.Kind, ids []string) string {
	var b strings.Builder
	for _, id := range ids {
		r, err := st.Get(ctx, resource.NewMetadata(kind.Namespace(), kind.Type(), id, resource.VersionUndefined))
		if err != nil {
			fmt.Fprintf(&b, "get %s: absent; ", id)
		} else {
			fmt.Fprintf(&b, "get %s: %s; ", id, render(r))
		}
	}
	l, err := st.List(ctx, kind)
	if err != nil {
		b.WriteString("list: " + err.Error())
	}
	items := make([]string, len(l.Items))
	for i, r := range l.Items {
		items[i] = render(r)
	}
	sort.Strings(items)
	b.WriteString("list: " + strings.Join(items, " | "))
	return b.String()
}

// ops of the API alphabet
var apiOps = []string{"create-b", "update-a", "update-a(emptied)", "modify-a", "modify-c(new)", "uwc-a", "get-a", "list", "list-label", "list-id", "watch-a", "watchkind", "copy-md"}

// nVariants orders of the mutation list: mutations accumulate on a holder, so only the first mutation of a group
// (labels, annotations, finalizers) meets storage that is still shared with the store and the other holders; variant
// v rotates every group by v, so that every mutation of a group is the first one in some variant.
const nVariants = 6

func mutationsFor(v int) []mutation {
	ms := mutations()
	for _, pre := range []string{"labels.", "annotations.", "finalizers"} {
		var idx []int
		for i, m := range ms {
			if strings.HasPrefix(m.name, pre) {
				idx = append(idx, i)
			}
		}
		group := make([]mutation, len(idx))
		for j, i := range idx {
			group[j] = ms[i]
		}
		for j, i := range idx {
			ms[i] = group[(j+v)%len(idx)]
		}
	}
	return ms
}

func runSequence(x *explore.X, fl string, seq []string, variant int) int {
	useSlice := fl != "remote"
	var kind resource.Kind = resource.NewMetadata(hx.NS, conformance.IntResourceType, "", resource.VersionUndefined)
	mk := func(id string) resource.Resource { return newInt(id) }
	if useSlice {
		kind = resource.NewMetadata(hx.NS, sliceType, "", resource.VersionUndefined)
		mk = func(id string) resource.Resource { return newSlice(id) }
	}
	ptr := func(id string) resource.Pointer {
		return resource.NewMetadata(kind.Namespace(), kind.Type(), id, resource.VersionUndefined)
	}
	res := vrt.Run(nil, vrt.Options{}, func() {
		ctx, cancel := context.WithCancel(context.Background())
		backend := namespaced.NewState(inmem.Build)
		var core state.CoreState = backend
		var cache *runtime.VerifCache
		switch fl {
		case "remote":
			core = client.NewAdapter(lb.New(server.NewState(backend)))
		case "cache":
			cache = runtime.VerifNewCache([]options.CachedResource{{Namespace: hx.NS, Type: kind.Type()}})
			core = cache.WrapState(backend)
		}
		st := state.WrapCore(core)
		var holds []*held
		hold := func(name string, r resource.Resource) {
			if r == nil {
				return
			}
			for _, h := range holds {
				if h.res == r {
					return // same object already held (e.g. the Modify callback argument is the result)
				}
			}
			holds = append(holds, &held{name: name, res: r, md: r.Metadata(), readOnly: strings.Contains(name, "event ")})
		}
		// the cache is fed from a watch on the backend, like the runtime does
		if cache != nil {
			ch := make(chan state.Event)
			if err := backend.WatchKind(ctx, kind, ch, state.WithBootstrapContents(true)); err != nil {
				panic(err)
			}
			vrt.Go(func() {
				for {
					rc := vrt.RecvCase((<-chan state.Event)(ch))
					if vrt.Select(false, vrt.RecvCase(ctx.Done()), rc) == 0 {
						return
					}
					switch rc.Value.Type {
					case state.Created, state.Updated:
						cache.CachePut(rc.Value.Resource)
					case state.Destroyed:
						cache.CacheRemove(rc.Value.Resource)
					case state.Bootstrapped:
						cache.MarkBootstrapped(hx.NS, kind.Type())
					}
				}
			})
		}
		a := mk("a")
		if err := st.Create(ctx, a); err != nil {
			panic(err)
		}
		hold("arg of Create(a)", a)
		vrt.WaitQuiescent()
		for i, op := range seq {
			tag := fmt.Sprintf("#%d %s: ", i, op)
			switch op {
			case "create-b":
				b := mk("b")
				st.Create(ctx, b) //nolint:errcheck
				hold(tag+"arg", b)
			case "update-a":
				cur, err := st.Get(ctx, ptr("a"))
				if err == nil {
					cur.Metadata().Labels().Set("upd", fmt.Sprint(i))
					st.Update(ctx, cur, state.WithExpectedPhaseAny()) //nolint:errcheck
					hold(tag+"arg", cur)
				}
			case "update-a(emptied)":
				// every label and annotation deleted one by one: the maps are allocated and empty when the store
				// takes its copy
				cur, err := st.Get(ctx, ptr("a"))
				if err == nil {
					for _, k := range cur.Metadata().Labels().Keys() {
						cur.Metadata().Labels().Delete(k)
					}
					for _, k := range cur.Metadata().Annotations().Keys() {
						cur.Metadata().Annotations().Delete(k)
					}
					st.Update(ctx, cur, state.WithExpectedPhaseAny()) //nolint:errcheck
					hold(tag+"arg", cur)
				}
			case "modify-a", "modify-c(new)":
				id := "a"
				if op != "modify-a" {
					id = "c"
				}
				empty := mk(id)
				var inner resource.Resource
				out, _ := st.ModifyWithResult(ctx, empty, func(r resource.Resource) error {
					inner = r
					r.Metadata().Labels().Set("mod", fmt.Sprint(i))
					return nil
				}, state.WithExpectedPhaseAny())
				hold(tag+"empty arg", empty)
				hold(tag+"callback arg", inner)
				hold(tag+"result", out)
			case "uwc-a":
				out, _ := st.UpdateWithConflicts(ctx, ptr("a"), func(r resource.Resource) error {
					r.Metadata().Annotations().Set("uwc", fmt.Sprint(i))
					return nil
				}, state.WithExpectedPhaseAny())
				hold(tag+"result", out)
			case "get-a":
				r, _ := st.Get(ctx, ptr("a"))
				hold(tag+"result", r)
			case "list", "list-label", "list-id":
				var lo []state.ListOption
				switch op {
				case "list-label":
					lo = append(lo, state.WithLabelQuery(resource.LabelExists("k")))
				case "list-id":
					lo = append(lo, state.WithIDQuery(resource.IDRegexpMatch(regexp.MustCompile("^[abc]$"))))
				}
				l, _ := st.List(ctx, kind, lo...)
				for j, r := range l.Items {
					hold(fmt.Sprintf("%sitem %d", tag, j), r)
				}
			case "watch-a", "watchkind":
				ch := make(chan state.Event)
				var err error
				if op == "watch-a" {
					err = st.Watch(ctx, ptr("a"), ch)
				} else {
					err = st.WatchKind(ctx, kind, ch, state.WithBootstrapContents(true))
				}
				if err != nil {
					continue
				}
				n := 0
				vrt.Go(func() {
					for {
						rc := vrt.RecvCase((<-chan state.Event)(ch))
						if vrt.Select(false, vrt.RecvCase(ctx.Done()), rc) == 0 {
							return
						}
						n++
						if rc.Value.Type == state.Created || rc.Value.Type == state.Updated {
							hold(fmt.Sprintf("%sevent %d resource", tag, n), rc.Value.Resource)
							hold(fmt.Sprintf("%sevent %d old", tag, n), rc.Value.Old)
						}
					}
				})
			case "copy-md":
				for _, h := range slices.Clone(holds) {
					if h.readOnly {
						continue
					}
					c := h.md.Copy()
					holds = append(holds, &held{name: tag + "Copy() of metadata of [" + h.name + "]", md: &c})
					v := *h.md
					holds = append(holds, &held{name: tag + "value copy of metadata of [" + h.name + "]", md: &v})
				}
			}
			vrt.WaitQuiescent()
		}
		// every public mutation of every held object must be invisible to the store and to every other holder
		ids := []string{"a", "b", "c"}
		snap := func() string {
			s := "backend: " + storeSnapshot(ctx, backend, kind, ids)
			if core != state.CoreState(backend) {
				s += " || via " + fl + ": " + storeSnapshot(ctx, core, kind, ids)
			}
			return s
		}
		for _, h := range holds {
			if h.readOnly {
				continue
			}
			for _, m := range mutationsFor(variant) {
				if h.res == nil && m.name == "spec write" {
					continue
				}
				before := snap()
				others := make([]string, len(holds))
				for i, o := range holds {
					if o != h {
						others[i] = o.render()
					}
				}
				m.f(h)
				if after := snap(); after != before {
					x.FailKey("alias/store", "flavour %s, sequence %v: mutating [%s] with %s changed what the store returns:\n before: %s\n after:  %s", fl, seq, h.name, m.name, before, after)
					cancel()
					return
				}
				for i, o := range holds {
					if o != h && o.render() != others[i] {
						x.FailKey("alias/holders", "flavour %s, sequence %v: mutating [%s] with %s changed another held object [%s]:\n before: %s\n after:  %s", fl, seq, h.name, m.name, o.name, others[i], o.render())
						cancel()
						return
					}
				}
			}
		}
		// copy-on-write law: two copies of one (already mutated, so possibly over-allocated) metadata never influence each other
		for _, h := range holds {
			if h.readOnly {
				continue
			}
			for i := 0; i < 8 && cap(*h.md.Finalizers()) == len(*h.md.Finalizers()); i++ {
				h.md.Finalizers().Add(fmt.Sprintf("grow%d", i)) // give a non-cloning Add room to write into a shared array
			}
			base := renderMD(h.md)
			c1, c2 := h.md.Copy(), h.md.Copy()
			c1.Finalizers().Add("one")
			c1.Labels().Set("c", "one")
			c1.Annotations().Set("c", "one")
			r1 := renderMD(&c1)
			c2.Finalizers().Add("two")
			c2.Labels().Set("c", "two")
			c2.Annotations().Set("c", "two")
			c2.Finalizers().Remove("f2")
			if renderMD(&c1) != r1 || renderMD(h.md) != base {
				x.FailKey("alias/cow", "flavour %s, sequence %v: two metadata copies of [%s] influence each other: after mutating copy 2, copy 1 is %s (was %s), original is %s (was %s)", fl, seq, h.name, renderMD(&c1), r1, renderMD(h.md), base)
				cancel()
				return
			}
		}
		x.Add("evaluations", len(holds)*len(mutations()))
		cancel()
		vrt.WaitQuiescent()
	})
	for _, p := range res.Panics {
		x.FailKey("alias/panic", "flavour %s, sequence %v: panic %s", fl, seq, p)
	}
	return res.Steps
}

func scenario(fl string, first string, maxLen int) explore.Scenario {
	return explore.Scenario{
		Name:       fmt.Sprintf("%s/first=%s/len<=%d", fl, first, maxLen),
		Desc:       fmt.Sprintf("all API sequences of <= %d calls starting with %s (%s flavour) that hand objects to / obtain objects from the state (Create/Update/Modify/UpdateWithConflicts args, callback args and results, Get/List results, watch event resources and old values, metadata copies); then every held object is mutated with each of %d public mutations (in 6 orders: every mutation of the label, annotation and finalizer groups comes first in one of them) and the store (Get + List, via backend and via the flavour) and all other held objects must be unchanged", maxLen, first, fl, len(mutations())),
		Sequential: true,
		Body: func(x *explore.X) {
			n, steps := 0, 0
			var rec func(seq []string)
			rec = func(seq []string) {
				// every order of the mutation groups for the short sequences, the first order for the longest ones
				for v := 0; v < nVariants; v++ {
					if v > 0 && len(seq) > 3 {
						break
					}
					steps += runSequence(x, fl, seq, v)
					n++
				}
				if len(seq) == maxLen || x.Failed() {
					return
				}
				for _, op := range apiOps {
					rec(append(append([]string{}, seq...), op))
				}
			}
			rec([]string{first})
			x.Add("states", n)
			x.Add("transitions", steps)
			x.Add("distinct_nontrivial", n)
			x.Add("traces_validated_against_impl", n)
			x.Sample(map[string]any{"flavour": fl, "sequence": []string{first, "list", "copy-md"}, "mutations": len(mutations())})
			x.Outcome("sequences=%d", n)
		},
	}
}

func build(tier string) []explore.Scenario {
	maxLen := 3
	if tier == "thorough" {
		maxLen = 4
	}
	var out []explore.Scenario
	for _, fl := range []string{"inmem", "cache", "remote"} {
		for _, op := range apiOps {
			l := maxLen
			if fl != "inmem" {
				l--
			}
			out = append(out, scenario(fl, op, l))
		}
	}
	return out
}

func main() {
	explore.Main(explore.Config{
		Property:     "C19",
		RequireShims: true,
		Technique:    "exhaustive enumeration of API call sequences (run to exact quiescence on the controlled scheduler) x every held object x every public mutation, with the store re-read after each mutation",
		Rule:         "every sequence up to the length over 12 API calls, 3 flavours (inmem, runtime cache, remote); after it every held object x 18 mutations; non-trivial = distinct sequences",
		Assume:       []string{"mutations go through the public metadata/spec API (KV.Raw() map writes are not part of it)", "deterministic default schedule"},
		Extra:        map[string]any{"explanation": "states = API sequences executed; transitions = scheduler steps; evaluations = (held object, mutation) pairs checked against a full re-read of the store"},
	}, build)
}
