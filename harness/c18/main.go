// Harness C18: every codec round-trips or rejects; decoders are total.
package main

import (
	"bytes"
	"fmt"
	"math"
	"strconv"
	"strings"
	"time"

	"go.yaml.in/yaml/v4"

	"github.com/cosi-project/runtime/api/v1alpha1"
	"github.com/cosi-project/runtime/pkg/controller/conformance"
	"github.com/cosi-project/runtime/pkg/resource"
	"github.com/cosi-project/runtime/pkg/resource/meta/spec"
	"github.com/cosi-project/runtime/pkg/resource/protobuf"
	"github.com/cosi-project/runtime/pkg/resource/typed"
	"github.com/cosi-project/runtime/pkg/state/impl/store"
	"github.com/cosi-project/runtime/pkg/state/impl/store/compression"
	"github.com/cosi-project/runtime/pkg/state/impl/store/encryption"
	"verif.local/explore"
	"verif.local/harness/lb"
)

// ---------------------------------------------------------------- resources under test

const (
	pbType  = resource.Type("test/pbspec")
	dynType = resource.Type("test/dynspec")
)

type pbExt struct{}

func (pbExt) ResourceDefinition() spec.ResourceDefinitionSpec {
	return spec.ResourceDefinitionSpec{Type: pbType, DefaultNamespace: "ns"}
}

type pbSpec = protobuf.ResourceSpec[v1alpha1.LabelTerm, *v1alpha1.LabelTerm]
type pbRes = typed.Resource[pbSpec, pbExt]

type dynSpecT struct {
	A string   `protobuf:"1"`
	B []string `protobuf:"2"`
	C int64    `protobuf:"3"`
}

func (d dynSpecT) DeepCopy() dynSpecT {
	return dynSpecT{A: d.A, B: append([]string(nil), d.B...), C: d.C}
}

type dynExt struct{}

func (dynExt) ResourceDefinition() spec.ResourceDefinitionSpec {
	return spec.ResourceDefinitionSpec{Type: dynType, DefaultNamespace: "ns"}
}

type dynRes = typed.Resource[dynSpecT, dynExt]

func register() {
	lb.RegisterConformanceResources()
	if err := protobuf.RegisterResource(pbType, &pbRes{}); err != nil && !strings.Contains(err.Error(), "already") {
		panic(err)
	}
	if err := protobuf.RegisterDynamic[dynSpecT](dynType, &dynRes{}); err != nil && !strings.Contains(err.Error(), "already") {
		panic(err)
	}
}

var hostile = []string{"", "a", "a b", " lead", "trail ", "é", "\n", "a\nb", ":", "- x", "#", "# c", "null", "~", "0", "1e3", "true", "'", "\"", "{}", "[a]", "a: b", "|", ">", "%", "@", "\t", "\x00", " "}

type mdVariant struct {
	desc string
	set  func(md *resource.Metadata)
}

func ts(s string) time.Time {
	t, err := time.Parse(time.RFC3339Nano, s)
	if err != nil {
		panic(err)
	}
	return t
}

// newMD builds metadata with the given identity (identity fields are immutable).
func mdVariants() []func() (string, resource.Metadata) {
	var out []func() (string, resource.Metadata)
	base := func() resource.Metadata {
		md := resource.NewMetadata("ns", "T", "id", resource.VersionUndefined)
		md.SetCreated(ts("2020-01-02T03:04:05Z"))
		md.SetUpdated(ts("2021-01-02T03:04:05Z"))
		return md
	}
	out = append(out, func() (string, resource.Metadata) { return "base", base() })
	for _, h := range hostile {
		h := h
		out = append(out,
			func() (string, resource.Metadata) {
				md := resource.NewMetadata(h, "T", "id", resource.VersionUndefined)
				return fmt.Sprintf("namespace=%q", h), md
			},
			func() (string, resource.Metadata) {
				md := resource.NewMetadata("ns", "T", h, resource.VersionUndefined)
				return fmt.Sprintf("id=%q", h), md
			},
			func() (string, resource.Metadata) {
				md := base()
				md.SetOwner(h) //nolint:errcheck
				return fmt.Sprintf("owner=%q", h), md
			},
			func() (string, resource.Metadata) {
				md := base()
				md.Finalizers().Add(h)
				return fmt.Sprintf("finalizer=%q", h), md
			},
			func() (string, resource.Metadata) {
				md := base()
				md.Finalizers().Add("x")
				md.Finalizers().Add(h)
				md.Finalizers().Add("z")
				return fmt.Sprintf("finalizers=[x,%q,z]", h), md
			},
		)
		for _, h2 := range hostile {
			h2 := h2
			out = append(out,
				func() (string, resource.Metadata) {
					md := base()
					md.Labels().Set(h, h2)
					return fmt.Sprintf("label %q=%q", h, h2), md
				},
				func() (string, resource.Metadata) {
					md := base()
					md.Annotations().Set(h, h2)
					md.Annotations().Set("other", h)
					return fmt.Sprintf("annotation %q=%q", h, h2), md
				})
		}
	}
	for _, v := range []string{"1", "2", "9223372036854775807"} {
		v := v
		out = append(out, func() (string, resource.Metadata) {
			ver, err := resource.ParseVersion(v)
			if err != nil {
				panic(err)
			}
			md := resource.NewMetadata("ns", "T", "id", ver)
			md.SetPhase(resource.PhaseTearingDown)
			return "version=" + v + " tearingDown", md
		})
	}
	for _, t := range []time.Time{{}, time.Unix(0, 0), ts("2024-02-29T23:59:59.123456789Z"), ts("2024-02-29T23:59:59.5+05:30"), ts("1969-12-31T23:59:59.999999999Z")} {
		t := t
		out = append(out, func() (string, resource.Metadata) {
			md := base()
			md.SetCreated(t)
			md.SetUpdated(t.Add(time.Nanosecond))
			return "timestamps=" + t.Format(time.RFC3339Nano), md
		})
	}
	return out
}

// withType rebuilds md under another type (identity is immutable).
func withType(md resource.Metadata, typ resource.Type) resource.Metadata {
	n := resource.NewMetadata(md.Namespace(), typ, md.ID(), md.Version())
	n.SetOwner(md.Owner()) //nolint:errcheck
	n.SetPhase(md.Phase())
	n.SetCreated(md.Created())
	n.SetUpdated(md.Updated())
	n.Finalizers().Set(*md.Finalizers())
	for _, k := range md.Labels().Keys() {
		v, _ := md.Labels().Get(k)
		n.Labels().Set(k, v)
	}
	for _, k := range md.Annotations().Keys() {
		v, _ := md.Annotations().Get(k)
		n.Annotations().Set(k, v)
	}
	return n
}

type specKind struct {
	name string
	mk   func(md resource.Metadata, i int) resource.Resource
}

func specKinds() []specKind {
	ints := []int{0, 1, -1, math.MaxInt64, math.MinInt64}
	return []specKind{
		{"int", func(md resource.Metadata, i int) resource.Resource {
			r := conformance.NewIntResource("x", "x", ints[i%len(ints)])
			*r.Metadata() = withType(md, conformance.IntResourceType)
			return r
		}},
		{"str", func(md resource.Metadata, i int) resource.Resource {
			r := conformance.NewStrResource("x", "x", hostile[i%len(hostile)])
			*r.Metadata() = withType(md, conformance.StrResourceType)
			return r
		}},
		{"pbspec", func(md resource.Metadata, i int) resource.Resource {
			h := hostile[i%len(hostile)]
			return typed.NewResource[pbSpec, pbExt](withType(md, pbType), pbSpec{Value: &v1alpha1.LabelTerm{Key: h, Op: v1alpha1.LabelTerm_Operation(i % 8), Value: []string{h, "v"}, Invert: i%2 == 0}})
		}},
		{"dynamic", func(md resource.Metadata, i int) resource.Resource {
			h := hostile[i%len(hostile)]
			return typed.NewResource[dynSpecT, dynExt](withType(md, dynType), dynSpecT{A: h, B: []string{h, "", "x"}, C: int64(ints[i%len(ints)])})
		}},
	}
}

func specOf(r resource.Resource) string {
	switch x := r.(type) {
	case *conformance.IntResource:
		return fmt.Sprint(x.Value())
	case *conformance.StrResource:
		return strconv.Quote(x.Value())
	case *pbRes:
		v := x.TypedSpec().Value
		return fmt.Sprintf("%q %d %q %v", v.GetKey(), v.GetOp(), v.GetValue(), v.GetInvert())
	case *dynRes:
		return fmt.Sprintf("%q %q %d", x.TypedSpec().A, x.TypedSpec().B, x.TypedSpec().C)
	}
	return fmt.Sprintf("%T", r)
}

// same compares two resources: metadata by Equal + timestamps, spec by rendering.
func same(a, b resource.Resource, tsPrecision time.Duration) string {
	am, bm := a.Metadata(), b.Metadata()
	if !am.Equal(*bm) {
		return fmt.Sprintf("metadata differs: %s vs %s (labels %v/%v annotations %v/%v finalizers %q/%q)", am, bm, am.Labels().Raw(), bm.Labels().Raw(), am.Annotations().Raw(), bm.Annotations().Raw(), *am.Finalizers(), *bm.Finalizers())
	}
	if !am.Created().Truncate(tsPrecision).Equal(bm.Created().Truncate(tsPrecision)) || !am.Updated().Truncate(tsPrecision).Equal(bm.Updated().Truncate(tsPrecision)) {
		return fmt.Sprintf("timestamps differ: created %v vs %v, updated %v vs %v", am.Created(), bm.Created(), am.Updated(), bm.Updated())
	}
	if specOf(a) != specOf(b) {
		return fmt.Sprintf("spec differs: %s vs %s", specOf(a), specOf(b))
	}
	return ""
}

// ---------------------------------------------------------------- encodings

var key32 = bytes.Repeat([]byte{7}, 32)

func cipherOf(key []byte) *encryption.Cipher {
	return encryption.NewCipher(encryption.KeyProviderFunc(func() ([]byte, error) { return key, nil }))
}

type codec struct {
	name string
	m    func(size int) store.Marshaler // size = length of the plain protobuf encoding (for thresholds)
}

func codecs() []codec {
	pm := store.ProtobufMarshaler{}
	z := compression.ZStd()
	return []codec{
		{"protobuf", func(int) store.Marshaler { return pm }},
		{"zstd(min=0)", func(int) store.Marshaler { return compression.NewMarshaler(pm, z, 0) }},
		{"zstd(min=len)", func(n int) store.Marshaler { return compression.NewMarshaler(pm, z, n) }},
		{"zstd(min=len+1)", func(n int) store.Marshaler { return compression.NewMarshaler(pm, z, n+1) }},
		{"aes", func(int) store.Marshaler { return encryption.NewMarshaler(pm, cipherOf(key32)) }},
		{"zstd(aes)", func(int) store.Marshaler {
			return compression.NewMarshaler(encryption.NewMarshaler(pm, cipherOf(key32)), z, 0)
		}},
		{"aes(zstd)", func(int) store.Marshaler {
			return encryption.NewMarshaler(compression.NewMarshaler(pm, z, 0), cipherOf(key32))
		}},
		{"aes(zstd(min=len+1))", func(n int) store.Marshaler {
			return encryption.NewMarshaler(compression.NewMarshaler(pm, z, n+1), cipherOf(key32))
		}},
	}
}

func guard(f func() string) (msg string) {
	defer func() {
		if r := recover(); r != nil {
			msg = fmt.Sprintf("PANIC: %v", r)
		}
	}()
	return f()
}

// heldRec is a record kept across later marshal calls (aliasing law).
type heldRec struct {
	b, snap []byte
	r       resource.Resource
	back    resource.Resource
	m       store.Marshaler
	label   string
}

func roundtripScenario(shard, n int) explore.Scenario {
	return explore.Scenario{
		Name:       fmt.Sprintf("roundtrip/shard%d-of-%d", shard, n),
		Desc:       "every metadata variant (each field over a 29-string hostile alphabet, all label and annotation key x value pairs, finalizer lists, versions, phases, timestamps incl. zero/non-UTC/nanoseconds/pre-epoch) x 4 spec kinds through the wire form, the store marshaler, compression on both sides of the threshold, encryption, both stackings and YAML; decode(encode(x)) must equal x",
		Sequential: true,
		Body: func(x *explore.X) {
			register()
			cs := codecs()
			cases, enc := 0, 0
			held := map[string]heldRec{}
			reused := map[string]resource.Resource{} // one long-lived destination object per spec kind
			noInPlace := map[string]bool{}
			for vi, mk := range mdVariants() {
				if vi%n != shard {
					continue
				}
				desc, md := mk()
				for _, sk := range specKinds() {
					r := sk.mk(md, vi)
					cases++
					label := fmt.Sprintf("%s spec=%s", desc, sk.name)
					// wire form
					msg := guard(func() string {
						pr, err := protobuf.FromResource(r)
						if err != nil {
							return "FromResource: " + err.Error()
						}
						w, err := pr.Marshal()
						if err != nil {
							return "Marshal: " + err.Error()
						}
						b, err := protobuf.ProtoMarshal(w)
						if err != nil {
							return "ProtoMarshal: " + err.Error()
						}
						var w2 v1alpha1.Resource
						if err := protobuf.ProtoUnmarshal(b, &w2); err != nil {
							return "ProtoUnmarshal: " + err.Error()
						}
						pr2, err := protobuf.Unmarshal(&w2)
						if err != nil {
							return "Unmarshal: " + err.Error()
						}
						back, err := protobuf.UnmarshalResource(pr2)
						if err != nil {
							return "UnmarshalResource: " + err.Error()
						}
						if d := same(r, back, time.Nanosecond); d != "" {
							return d
						}
						// decoding into a destination that already holds another resource (a caller reusing its object)
						// must give this resource, not a mixture
						if um, ok := back.(protobuf.ResourceUnmarshaler); ok && !noInPlace[sk.name] {
							if dst, ok := reused[sk.name]; ok {
								err := pr2.Unmarshal(dst.(protobuf.ResourceUnmarshaler))
								switch {
								case err != nil && strings.Contains(err.Error(), "does not implement ProtoUnmarshaler"):
									noInPlace[sk.name] = true // (specs decoded through struct tags have no in-place path)
								case err != nil:
									return "Unmarshal into a used destination: " + err.Error()
								default:
									if d := same(r, dst, time.Nanosecond); d != "" {
										return "decoded into a destination that held another resource: " + d
									}
								}
							} else {
								fresh, err := protobuf.UnmarshalResource(pr2)
								if err != nil {
									return "UnmarshalResource: " + err.Error()
								}
								reused[sk.name] = fresh
							}
							_ = um
						}
						// the bytes and the decoded object handed out for the previous resource stay what they were
						if h, ok := held["wire"]; ok {
							if !bytes.Equal(h.b, h.snap) {
								return fmt.Sprintf("the wire bytes returned earlier for [%s] changed after this marshal call", h.label)
							}
							if d := same(h.r, h.back, time.Nanosecond); d != "" {
								return fmt.Sprintf("the object decoded earlier for [%s] changed after this round trip: %s", h.label, d)
							}
						}
						held["wire"] = heldRec{b: b, snap: append([]byte(nil), b...), r: r, back: back, label: label}
						return ""
					})
					enc++
					if msg != "" {
						x.FailKey("roundtrip/wire", "%s: wire form: %s", label, msg)
					}
					plain, _ := store.ProtobufMarshaler{}.MarshalResource(r)
					for _, c := range cs {
						enc++
						msg := guard(func() string {
							m := c.m(len(plain))
							b, err := m.MarshalResource(r)
							if err != nil {
								return "marshal: " + err.Error()
							}
							back, err := m.UnmarshalResource(b)
							if err != nil {
								return "unmarshal: " + err.Error()
							}
							if d := same(r, back, time.Nanosecond); d != "" {
								return d
							}
							// a record is the caller's once returned (a store writes it after other marshal calls):
							// the record of the previous resource must be byte-identical and still decode to it
							if h, ok := held[c.name]; ok {
								if !bytes.Equal(h.b, h.snap) {
									return fmt.Sprintf("the record returned earlier for [%s] changed after this marshal call (the marshaler hands out memory it reuses)", h.label)
								}
								hb, err := h.m.UnmarshalResource(h.b)
								if err != nil {
									return fmt.Sprintf("the record returned earlier for [%s] no longer decodes: %v", h.label, err)
								}
								if d := same(h.r, hb, time.Nanosecond); d != "" {
									return fmt.Sprintf("the record returned earlier for [%s] decodes differently now: %s", h.label, d)
								}
							}
							held[c.name] = heldRec{b: b, snap: append([]byte(nil), b...), r: r, m: m, label: label}
							return ""
						})
						if msg != "" {
							x.FailKey("roundtrip/"+c.name, "%s: %s: %s", label, c.name, msg)
						}
					}
					if sk.name == "pbspec" {
						enc++
						msg := guard(func() string {
							y, err := resource.MarshalYAML(r)
							if err != nil {
								return "MarshalYAML: " + err.Error()
							}
							raw, err := yaml.Marshal(y)
							if err != nil {
								return "yaml.Marshal: " + err.Error()
							}
							var yr protobuf.YAMLResource
							if err := yaml.Unmarshal(raw, &yr); err != nil {
								return fmt.Sprintf("yaml.Unmarshal: %v (document %q)", err, raw)
							}
							if d := same(r, yr.Resource(), time.Second); d != "" {
								return fmt.Sprintf("%s (document %q)", d, raw)
							}
							return ""
						})
						if msg != "" {
							x.FailKey("roundtrip/yaml", "%s: YAML: %s", label, msg)
						}
					}
				}
			}
			if shard == 0 {
				textForms(x)
			}
			x.Add("states", cases)
			x.Add("transitions", enc)
			x.Add("evaluations", enc)
			x.Add("distinct_nontrivial", cases)
			x.Add("traces_validated_against_impl", enc)
			x.Sample(map[string]any{"metadata": "label \" lead\"=\"a: b\"", "spec": "pbspec", "encodings": 10})
			x.Outcome("resources=%d encodings=%d", cases, enc)
		},
	}
}

func textForms(x *explore.X) {
	for _, v := range []string{"undefined", "1", "2", "1000000", "9223372036854775807"} {
		ver, err := resource.ParseVersion(v)
		if err != nil {
			x.FailKey("text/version", "ParseVersion(%q): %v", v, err)
			continue
		}
		back, err := resource.ParseVersion(ver.String())
		if err != nil || !back.Equal(ver) || ver.String() != v {
			x.FailKey("text/version", "version %q -> %q does not parse back (%v)", v, ver.String(), err)
		}
		n := ver.Next()
		if nb, err := resource.ParseVersion(n.String()); v != "9223372036854775807" && (err != nil || !nb.Equal(n)) {
			x.FailKey("text/version", "version %q.Next() = %q does not parse back (%v)", v, n.String(), err)
		}
	}
	// decoder totality on hostile text: error or a value (round trip of such values is reported, not asserted:
	// reachable versions are 1,2,...)
	odd := 0
	for _, s := range append(append([]string{}, hostile...), "-1", "+1", "01", "1.0", "0x10", "18446744073709551615", "9223372036854775808", " 1", "1 ", "Undefined") {
		ver, err := resource.ParseVersion(s)
		if err == nil {
			if back, err2 := resource.ParseVersion(ver.String()); err2 != nil || !back.Equal(ver) {
				odd++
			}
		}
		resource.ParsePhase(s) //nolint:errcheck
	}
	x.Add("informational_version_texts_accepted_but_not_round_tripping", odd)
	for _, p := range []resource.Phase{resource.PhaseRunning, resource.PhaseTearingDown} {
		if back, err := resource.ParsePhase(p.String()); err != nil || back != p {
			x.FailKey("text/phase", "phase %v does not parse back", p)
		}
	}
}

// ---------------------------------------------------------------- totality

func tamperScenario(ci int) explore.Scenario {
	c := codecs()[ci]
	return explore.Scenario{
		Name:       "totality/" + c.name,
		Desc:       "for the encodings of a covering set of resources: every truncation and every single-byte substitution (6 values) at every offset, plus all byte strings of length <= 3 over 5 byte values, fed to the decoder of " + c.name + ": an error or a well-formed resource, never a panic; for encrypted records every tamper and a wrong key must be an error",
		Sequential: true,
		Body: func(x *explore.X) {
			register()
			encrypted := strings.HasPrefix(c.name, "aes")
			var seeds []resource.Resource
			mvs := mdVariants()
			for i, idx := range []int{0, 7, 40, 333, len(mvs) - 3, len(mvs) - 9} {
				_, md := mvs[idx%len(mvs)]()
				seeds = append(seeds, specKinds()[i%4].mk(md, idx))
			}
			n, rejected, accepted := 0, 0, 0
			feed := func(m store.Marshaler, b []byte, what string, mustErr bool) {
				n++
				var res resource.Resource
				var err error
				msg := guard(func() string {
					res, err = m.UnmarshalResource(b)
					if err == nil {
						// well-formed: must be usable
						_ = res.Metadata().String()
						res.DeepCopy()
						if _, e := m.MarshalResource(res); e != nil {
							return ""
						}
					}
					return ""
				})
				if msg != "" {
					x.FailKey("totality/panic/"+c.name, "%s: decoder panicked: %s", what, msg)
					return
				}
				if err != nil {
					rejected++
					return
				}
				accepted++
				if mustErr {
					x.FailKey("totality/tamper-accepted/"+c.name, "%s: tampered encrypted record was accepted as %s", what, res.Metadata())
				}
			}
			for si, r := range seeds {
				plain, _ := store.ProtobufMarshaler{}.MarshalResource(r)
				m := c.m(len(plain))
				b, err := m.MarshalResource(r)
				if err != nil {
					x.FailKey("totality/marshal", "seed %d: %v", si, err)
					continue
				}
				for cut := 0; cut < len(b); cut++ {
					feed(m, b[:cut], fmt.Sprintf("seed %d truncated to %d of %d bytes", si, cut, len(b)), encrypted)
				}
				for off := 0; off < len(b); off++ {
					for _, v := range []byte{0x00, 0x01, 0x7f, 0x80, 0xff, b[off] ^ 1} {
						if v == b[off] {
							continue
						}
						t := bytes.Clone(b)
						t[off] = v
						feed(m, t, fmt.Sprintf("seed %d byte %d: %#x -> %#x", si, off, b[off], v), encrypted)
					}
				}
				feed(m, append(bytes.Clone(b), 0), fmt.Sprintf("seed %d extended by one byte", si), encrypted)
				if encrypted {
					wrong := bytes.Repeat([]byte{9}, 32)
					var wm store.Marshaler
					switch c.name {
					case "aes":
						wm = encryption.NewMarshaler(store.ProtobufMarshaler{}, cipherOf(wrong))
					default:
						wm = encryption.NewMarshaler(compression.NewMarshaler(store.ProtobufMarshaler{}, compression.ZStd(), 0), cipherOf(wrong))
					}
					feed(wm, b, fmt.Sprintf("seed %d decrypted with a wrong key", si), true)
				}
			}
			// crafted compressed records (seed c18i): well-formed zstd frames whose header claims an absurd content
			// size and whose single raw block is empty or short - a decoder that trusts the header must not panic
			for _, claimed := range []uint64{1 << 62, 1 << 63, ^uint64(0), 1 << 49, 1<<56 + 1} {
				for _, payload := range [][]byte{nil, []byte("x")} {
					fr := []byte{0x00, 'z', 0x28, 0xb5, 0x2f, 0xfd, 0xe0} // marker, compressor id, magic, descriptor: 8-byte size, single segment
					for i := 0; i < 8; i++ {
						fr = append(fr, byte(claimed>>(8*i)))
					}
					fr = append(fr, byte(1|len(payload)<<3), 0, 0) // last block, raw, size len(payload)
					fr = append(fr, payload...)
					feed(c.m(0), fr, fmt.Sprintf("zstd frame claiming %d bytes with a %d-byte raw block", claimed, len(payload)), false)
				}
			}
			alpha := []byte{0x00, 0x01, 0x0a, 0x7a, 0xff}
			m := c.m(0)
			var gen func(prefix []byte)
			gen = func(prefix []byte) {
				feed(m, prefix, fmt.Sprintf("bytes %x", prefix), false)
				if len(prefix) == 3 {
					return
				}
				for _, a := range alpha {
					gen(append(bytes.Clone(prefix), a))
				}
			}
			gen(nil)
			x.Add("states", n)
			x.Add("transitions", n)
			x.Add("evaluations", n)
			x.Add("distinct_nontrivial", rejected)
			x.Add("traces_validated_against_impl", n)
			x.Add("inputs_accepted_as_well_formed", accepted)
			x.Sample(map[string]any{"codec": c.name, "example": "seed 0 byte 3: 0x12 -> 0x80"})
			x.Outcome("inputs=%d rejected=%d accepted=%d", n, rejected, accepted)
		},
	}
}

func wireTotalityScenario() explore.Scenario {
	return explore.Scenario{
		Name:       "totality/wire+yaml",
		Desc:       "truncations and single-byte substitutions of wire-form resources fed to ProtoUnmarshal -> Unmarshal -> UnmarshalResource, and of YAML documents fed to YAMLResource: error or resource, never a panic",
		Sequential: true,
		Body: func(x *explore.X) {
			register()
			n, rej := 0, 0
			mvs := mdVariants()
			for i, idx := range []int{0, 11, 99, len(mvs) - 2} {
				_, md := mvs[idx%len(mvs)]()
				r := specKinds()[2].mk(md, i)
				pr, _ := protobuf.FromResource(r)
				w, _ := pr.Marshal()
				b, _ := protobuf.ProtoMarshal(w)
				y, _ := resource.MarshalYAML(r)
				doc, _ := yaml.Marshal(y)
				try := func(t []byte, what string, isYAML bool) {
					n++
					msg := guard(func() string {
						if isYAML {
							var yr protobuf.YAMLResource
							if err := yaml.Unmarshal(t, &yr); err != nil {
								rej++
								return ""
							}
							defer func() {
								if r := recover(); r != nil && fmt.Sprint(r) == "resource is not set" {
									rej++ // an empty document leaves the holder empty; Resource() documents this panic
								} else if r != nil {
									panic(r)
								}
							}()
							yr.Resource()
							return ""
						}
						var w2 v1alpha1.Resource
						if err := protobuf.ProtoUnmarshal(t, &w2); err != nil {
							rej++
							return ""
						}
						pr2, err := protobuf.Unmarshal(&w2)
						if err != nil {
							rej++
							return ""
						}
						if _, err := protobuf.UnmarshalResource(pr2); err != nil {
							rej++
						}
						return ""
					})
					if msg != "" {
						k := "totality/panic/wire"
						if isYAML {
							k = "totality/panic/yaml"
						}
						x.FailKey(k, "%s: decoder panicked: %s", what, msg)
					}
				}
				for _, in := range []struct {
					b    []byte
					yaml bool
				}{{b, false}, {doc, true}} {
					for cut := 0; cut < len(in.b); cut++ {
						try(in.b[:cut], fmt.Sprintf("seed %d (yaml=%v) truncated to %d", i, in.yaml, cut), in.yaml)
					}
					for off := 0; off < len(in.b); off++ {
						for _, v := range []byte{0x00, 0x01, 0x7f, 0x80, 0xff, in.b[off] ^ 1, ' ', ':', '-', '\n'} {
							if v == in.b[off] {
								continue
							}
							t := bytes.Clone(in.b)
							t[off] = v
							try(t, fmt.Sprintf("seed %d (yaml=%v) byte %d -> %#x", i, in.yaml, off, v), in.yaml)
						}
					}
				}
			}
			x.Add("states", n)
			x.Add("transitions", n)
			x.Add("evaluations", n)
			x.Add("distinct_nontrivial", rej)
			x.Add("traces_validated_against_impl", n)
			x.Outcome("inputs=%d rejected=%d", n, rej)
		},
	}
}

func build(tier string) []explore.Scenario {
	var out []explore.Scenario
	n := 12
	for i := 0; i < n; i++ {
		out = append(out, roundtripScenario(i, n))
	}
	for i := range codecs() {
		out = append(out, tamperScenario(i))
	}
	out = append(out, wireTotalityScenario())
	return out
}

func main() {
	explore.Main(explore.Config{
		Property:  "C18",
		Level:     "exploration",
		Technique: "small-scope exhaustive input enumeration: every metadata variant x spec kind through every encoding (round trip), and every truncation / single-byte substitution / short byte string through every decoder (totality, tamper detection)",
		Rule:      "round trip: per-field exhaustive over a 29-string hostile alphabet, all key x value pairs for labels and annotations, 4 spec kinds, 10 encodings; totality: all truncations and 6 substitutions per offset of 6 seed encodings per codec + all byte strings of length <= 3 over 5 values; non-trivial = distinct resources / inputs rejected by the decoder",
		Assume:    []string{"small-scope hypothesis: inputs outside the stated alphabets and sizes are not covered", "finalizer lists are built with Add (duplicates via Set are outside the alphabet)", "version texts that are accepted but do not round-trip (e.g. \"-1\") are reported, not asserted: reachable versions are 1,2,..."},
		Extra:     map[string]any{"explanation": "states = resources / decoder inputs enumerated; transitions = encode-decode round trips or decoder invocations executed on the real codecs"},
	}, build)
}
