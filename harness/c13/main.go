// Harness C13: remote watches survive transport failures without gaps or duplicates.
package main

import (
	"context"
	"fmt"
	"regexp"
	"strings"
	"time"

	"google.golang.org/grpc/codes"
	"google.golang.org/grpc/status"

	"github.com/cosi-project/runtime/pkg/controller/conformance"
	"github.com/cosi-project/runtime/pkg/resource"
	"github.com/cosi-project/runtime/pkg/state"
	"github.com/cosi-project/runtime/pkg/state/impl/inmem"
	"github.com/cosi-project/runtime/pkg/state/protobuf/client"
	"github.com/cosi-project/runtime/pkg/state/protobuf/server"
	"verif.local/explore"
	"verif.local/harness/hx"
	"verif.local/harness/lb"
	"verif.local/harness/wx"
	"verif.local/vrt"
	"verif.local/vrt/vctx"
)

type flavour int

const (
	fID flavour = iota
	fKind
	fAgg
	fKindBoot
	fAggBoot
	fKindLabel // kind watch with a label selector (only resources labelled sel=1 match)
	fAggIDQuery
	fKindBBTail
	fAggBBTail
	fIDTail // watch of one resource replaying its last two events
	nFlavours
)

var fNames = []string{"watch-id", "watch-kind", "watch-kind-agg", "watch-kind-bootstrap", "watch-kind-agg-bootstrap", "watch-kind-label-selector", "watch-kind-agg-id-selector", "watch-kind-bootstrap-bookmark+tail2", "watch-kind-agg-bootstrap-bookmark+tail2", "watch-id-tail2"}

type plan struct {
	fl       flavour
	failIdx  int  // message index of the first stream at which the transport fails (0 = the ready message)
	lost     bool // the message at failIdx left the server but was lost in transit (else: fails before it)
	repeat   int  // how many consecutive re-established streams fail again
	repeatAt int  // ... before their message repeatAt (0 = 1: before the first event message; 2: after the first event message - which batches everything written during the outage - was received)
	estFail  int  // how many re-establishment attempts fail (Unavailable) per outage
	outageW  int  // writes landing during the outage
	noRetry  bool
	special  string // "", "restart" (server replaced by a fresh one), "moved-on" (history rolls over during the outage)
	capacity int
	writes   int
}

func (p plan) String() string {
	mode := "before"
	if p.lost {
		mode = "lost"
	}
	s := fmt.Sprintf("%s/fail@%d-%s/repeat%d/estfail%d/outage-writes%d", fNames[p.fl], p.failIdx, mode, p.repeat, p.estFail, p.outageW)
	if p.repeatAt > 1 {
		s += fmt.Sprintf("/repeat-at%d", p.repeatAt)
	}
	if p.noRetry {
		s += "/noretry"
	}
	if p.special != "" {
		s += "/" + p.special
	}
	return s
}

// faults implements lb.Faults from a plan.
type faults struct {
	p         plan
	onOutage  func()
	outages   int
	streams   int
	estFailed int
	active    bool
}

func unavailable() error { return status.Error(codes.Unavailable, "transport is closing") }

func (f *faults) WatchCall(n int) error {
	vrt.TouchKey("c13.faults", true)
	if n == 0 {
		return nil
	}
	if f.estFailed < f.p.estFail {
		f.estFailed++
		return unavailable()
	}
	return nil
}

func (f *faults) fail(n, idx int, lost bool) error {
	vrt.TouchKey("c13.faults", true) // the plan's counters and the writer's progress are shared with main
	hit := false
	if n == 0 {
		hit = idx == f.p.failIdx && lost == f.p.lost
	} else if n-f.skipped() <= f.p.repeat {
		// re-established streams: fail again before their message repeatAt arrives
		at := f.p.repeatAt
		if at == 0 {
			at = 1
		}
		hit = idx == at && !lost && f.repeatLeft() > 0
	}
	if !hit {
		return nil
	}
	f.outages++
	f.estFailed = 0
	if f.outages == 1 && f.onOutage != nil {
		f.onOutage()
	}
	return unavailable()
}

func (f *faults) skipped() int    { return 0 }
func (f *faults) repeatLeft() int { return f.p.repeat - (f.outages - 1) }

func (f *faults) WatchRecv(n, idx int) error { return f.fail(n, idx, false) }
func (f *faults) WatchLost(n, idx int) error { return f.fail(n, idx, true) }

var tolerant bool // after a simulated server restart the script may hit missing resources

func write(ctx context.Context, st state.State, i int) {
	defer func() {
		if r := recover(); r != nil && !tolerant {
			panic(r)
		}
	}()
	upd := func(id string) {
		if _, err := st.UpdateWithConflicts(ctx, hx.IntPtr(id), func(r resource.Resource) error {
			r.(*conformance.IntResource).SetValue(r.(*conformance.IntResource).Value() + 10)
			return nil
		}); err != nil {
			panic(err)
		}
	}
	var err error
	switch i % 8 {
	case 0, 2, 5, 7:
		upd("a")
	case 1:
		err = st.Create(ctx, conformance.NewIntResource(hx.NS, "b", 2))
	case 3:
		err = st.Destroy(ctx, hx.IntPtr("a"))
	case 4:
		na := conformance.NewIntResource(hx.NS, "a", 3)
		na.Metadata().Labels().Set("sel", "1")
		err = st.Create(ctx, na)
	case 6:
		err = st.Destroy(ctx, hx.IntPtr("b"))
	}
	if err != nil {
		panic(err)
	}
}

type sink struct {
	got     []wx.Ev
	errored bool
	after   int
	errMsg  string
}

func (s *sink) take(e state.Event) {
	if s.errored {
		s.after++
		return
	}
	if e.Type == state.Errored {
		s.errored = true
		if e.Error != nil {
			s.errMsg = e.Error.Error()
		}
		return
	}
	s.got = append(s.got, wx.Render(e))
}

func startWatch(ctx context.Context, st state.CoreState, fl flavour, s *sink) error {
	ch, ach := make(chan state.Event), make(chan []state.Event)
	var err error
	switch fl {
	case fID:
		err = st.Watch(ctx, hx.IntPtr("a"), ch)
	case fKind:
		err = st.WatchKind(ctx, hx.IntKind(), ch)
	case fAgg:
		err = st.WatchKindAggregated(ctx, hx.IntKind(), ach)
	case fKindBoot:
		err = st.WatchKind(ctx, hx.IntKind(), ch, state.WithBootstrapContents(true))
	case fAggBoot:
		err = st.WatchKindAggregated(ctx, hx.IntKind(), ach, state.WithBootstrapContents(true))
	case fKindLabel:
		err = st.WatchKind(ctx, hx.IntKind(), ch, state.WatchWithLabelQuery(resource.LabelEqual("sel", "1")))
	case fAggIDQuery:
		err = st.WatchKindAggregated(ctx, hx.IntKind(), ach, state.WatchWithIDQuery(resource.IDRegexpMatch(regexp.MustCompile("^a$"))))
	case fKindBBTail:
		err = st.WatchKind(ctx, hx.IntKind(), ch, state.WithBootstrapBookmark(true), state.WithKindTailEvents(2))
	case fAggBBTail:
		err = st.WatchKindAggregated(ctx, hx.IntKind(), ach, state.WithBootstrapBookmark(true), state.WithKindTailEvents(2))
	case fIDTail:
		err = st.Watch(ctx, hx.IntPtr("a"), ch, state.WithTailEvents(2))
	}
	if err != nil {
		return err
	}
	vrt.Go(func() {
		for {
			rc, ra := vrt.RecvCase((<-chan state.Event)(ch)), vrt.RecvCase((<-chan []state.Event)(ach))
			switch vrt.Select(false, vrt.RecvCase(ctx.Done()), rc, ra) {
			case 0:
				return
			case 1:
				s.take(rc.Value)
			case 2:
				for _, e := range ra.Value {
					s.take(e)
				}
			}
		}
	})
	return nil
}

// swappable lets the harness replace the backend behind the server ("server restarted").
type swappable struct{ state.CoreState }

const nWrites = 6

func body(p plan, x *explore.X) {
	ctx, cancel := vctx.WithCancel(context.Background())
	tolerant = p.special == "restart"
	total := nWrites
	if p.writes > 0 {
		total = p.writes
	}
	capacity := p.capacity
	if capacity == 0 {
		capacity = 100
	}
	mkBackend := func() state.CoreState {
		return inmem.NewStateWithOptions(inmem.WithHistoryInitialCapacity(capacity), inmem.WithHistoryMaxCapacity(capacity), inmem.WithHistoryGap(0))(hx.NS)
	}
	backend := &swappable{mkBackend()}
	bst := state.WrapCore(backend)
	ra := conformance.NewIntResource(hx.NS, "a", 1)
	ra.Metadata().Labels().Set("sel", "1")
	if err := bst.Create(ctx, ra); err != nil {
		panic(err)
	}
	if err := bst.Create(ctx, conformance.NewIntResource(hx.NS, "z", 9)); err != nil {
		panic(err)
	}
	lc := lb.New(server.NewState(backend))
	done := 0
	f := &faults{p: p}
	f.onOutage = func() {
		switch p.special {
		case "restart":
			// a fresh server process: its log is shorter than the client's bookmark
			backend.CoreState = mkBackend()
			nb := state.WrapCore(backend)
			nb.Create(ctx, conformance.NewIntResource(hx.NS, "a", 1)) //nolint:errcheck
			bst = nb
		case "moved-on":
			for i := 0; i < capacity+2; i++ {
				write(ctx, bst, done)
				done++
			}
		}
		for i := 0; i < p.outageW; i++ {
			write(ctx, bst, done)
			done++
		}
	}
	lc.Faults = f
	var opts []client.AdapterOption
	if p.noRetry {
		opts = append(opts, client.WithDisableWatchRetry())
	}
	remote := client.NewAdapter(lc, opts...)
	ref, got := &sink{}, &sink{}
	if err := startWatch(ctx, backend.CoreState, p.fl, ref); err != nil {
		panic(err)
	}
	rerr := startWatch(ctx, remote, p.fl, got)
	drain := func() {
		for i := 0; i < 200; i++ {
			vrt.WaitQuiescent()
			t, ok := vrt.PendingTimer()
			if !ok || time.Duration(t) > 20*time.Minute {
				break
			}
			vrt.FireNextTimer()
		}
	}
	drain()
	for {
		vrt.TouchKey("c13.faults", true)
		if done >= total+p.outageW {
			break
		}
		write(ctx, bst, done)
		done++
		drain()
	}
	drain()
	// oracle
	label := p.String()
	if rerr != nil {
		// failing the ready message makes the Watch call itself fail: allowed (nothing was established)
		if p.failIdx != 0 {
			x.Failf("%s: establishing the remote watch failed: %v", label, rerr)
		}
		x.Outcome("establish-error")
		cancel()
		vrt.WaitQuiescent()
		return
	}
	want := ref.got
	if p.special == "restart" {
		want = nil // the reference watch is bound to the old backend; only prefix/Errored rules apply below
	}
	isPrefix := p.special == "restart" || (len(got.got) <= len(want))
	if isPrefix && p.special != "restart" {
		for i := range got.got {
			if got.got[i] != want[i] {
				isPrefix = false
				x.Failf("%s: event %d of the remote stream is %v, the server's stream has %v (loss, duplicate, reorder or re-delivered bootstrap): remote %v, direct %v", label, i, got.got[i], want[i], got.got, want)
				break
			}
		}
	}
	if !isPrefix && len(got.got) > len(want) {
		x.Failf("%s: the remote stream has %d events, the server's stream only %d (duplicate or re-delivered bootstrap): %v vs %v", label, len(got.got), len(want), got.got, want)
	}
	if got.after > 0 {
		x.Failf("%s: %d events after Errored", label, got.after)
	}
	if got.errored {
		allowed := p.noRetry || p.special != ""
		// no bookmark seen yet when the transport failed
		seen := p.failIdx - 1 // event messages fully received before the failure
		if p.lost {
			seen = p.failIdx - 1
		}
		bookmarked := 0
		switch p.fl {
		case fID:
			bookmarked = seen - 1 // the initial event carries no bookmark
		case fKind:
			bookmarked = seen
		case fAgg:
			bookmarked = seen
		case fKindBoot:
			bookmarked = seen - 2 // two bootstrap Created events without bookmark, then Bootstrapped (bookmarked)
		case fAggBoot:
			bookmarked = seen
		case fKindLabel, fAggIDQuery, fIDTail:
			bookmarked = seen
		}
		if bookmarked <= 0 {
			allowed = true
		}
		if !allowed {
			x.Failf("%s: the client gave up with Errored (%s) although a bookmark had been seen, it is still valid and retries are enabled", label, got.errMsg)
		}
	} else if p.special != "restart" && len(got.got) != len(want) {
		x.Failf("%s: silent gap: the remote stream stopped after %d of %d events without Errored: remote %v, direct %v", label, len(got.got), len(want), got.got, want)
	}
	if p.special != "" && !got.errored && p.special == "moved-on" && len(got.got) != len(want) {
		x.Failf("%s: history moved on during the outage: the stream must end with Errored or be complete", label)
	}
	x.Outcome("n=%d errored=%v outages=%d", len(got.got), got.errored, f.outages)
	if f.outages > 0 {
		x.Add("plans_with_an_outage", 1)
	}
	if got.errored {
		x.Add("plans_ending_in_Errored", 1)
	} else if f.outages > 0 {
		x.Add("plans_resumed_transparently", 1)
	}
	vrt.Branching(false)
	cancel()
	vrt.WaitQuiescent()
}

func detScenario(fl flavour) explore.Scenario {
	return explore.Scenario{
		Name:       "enumerate/" + fNames[fl],
		Desc:       "every fault plan for " + fNames[fl] + ": transport failure at message index 0..5 (before the message or with the message lost in transit), 0-2 repeated failures of the re-established stream, 0-2 failed re-establishment attempts, 0-2 writes during the outage, retries on/off, server restarted, history moved on; deterministic schedule, virtual clock drives the backoff; remote stream compared with a direct watch on the server's state",
		Sequential: true,
		Body: func(x *explore.X) {
			n, steps := 0, 0
			run := func(p plan) {
				var sub explore.X
				_ = sub
				res := vrt.Run(nil, vrt.Options{}, func() { body(p, x) })
				for _, pn := range res.Panics {
					x.Failf("%s: panic %s", p, pn)
				}
				if len(res.Live) > 0 {
					x.Failf("%s: goroutines alive at the end: %v", p, res.Live)
				}
				steps += res.Steps
				n++
			}
			for idx := 0; idx <= 5; idx++ {
				for _, lost := range []bool{false, true} {
					for rep := 0; rep <= 2; rep++ {
						for est := 0; est <= 2; est++ {
							for w := 0; w <= 2; w++ {
								run(plan{fl: fl, failIdx: idx, lost: lost, repeat: rep, estFail: est, outageW: w})
								if rep > 0 {
									run(plan{fl: fl, failIdx: idx, lost: lost, repeat: rep, repeatAt: 2, estFail: est, outageW: w})
								}
							}
						}
					}
					run(plan{fl: fl, failIdx: idx, lost: lost, noRetry: true})
					run(plan{fl: fl, failIdx: idx, lost: lost, special: "restart", outageW: 1})
					run(plan{fl: fl, failIdx: idx, lost: lost, special: "moved-on", capacity: 3})
				}
			}
			x.Add("states", n)
			x.Add("transitions", steps)
			x.Add("evaluations", n)
			x.Add("distinct_nontrivial", n)
			x.Add("traces_validated_against_impl", n)
			x.Sample(map[string]any{"plan": plan{fl: fl, failIdx: 3, lost: true, repeat: 1, estFail: 2, outageW: 2}.String()})
			x.Outcome("plans=%d", n)
		},
	}
}

func schedScenario(p plan, bounds []int) explore.Scenario {
	return explore.Scenario{
		Name:   "schedules/" + p.String(),
		Desc:   "all schedules up to the preemption bound of client adapter, in-process transport, server handler, watch goroutines and writer for the fault plan " + p.String(),
		Bounds: bounds,
		HB:     true,
		Body:   func(x *explore.X) { body(p, x) },
	}
}

func build(tier string) []explore.Scenario {
	var out []explore.Scenario
	for fl := flavour(0); fl < nFlavours; fl++ {
		out = append(out, detScenario(fl))
	}
	// with happens-before pruning every flavour gets its schedule exploration, one bound deeper
	b := []int{0, 1, 2}
	if tier == "thorough" {
		b = []int{0, 1, 2, 3}
	}
	for fl := flavour(0); fl < nFlavours; fl++ {
		for _, p := range []plan{
			{fl: fl, failIdx: 1, lost: true, outageW: 1, writes: 2},
			{fl: fl, failIdx: 2, lost: false, estFail: 1, outageW: 1, writes: 2},
			{fl: fl, failIdx: 2, lost: true, repeat: 1, repeatAt: 2, outageW: 2, writes: 2},
		} {
			if fl >= fKindBBTail && p.repeat == 0 && p.estFail == 0 {
				continue // the replaying flavours: two plans are enough for the schedule part
			}
			sc := schedScenario(p, b)
			sc.MaxExecs = 100000
			if tier == "thorough" {
				sc.MaxExecs = 6000000
			}
			out = append(out, sc)
		}
	}
	return out
}

func main() {
	_ = strings.Join
	explore.Main(explore.Config{
		Property:     "C13",
		RequireShims: true,
		Level:        "fault_enumeration",
		Technique:    "exhaustive enumeration of transport fault plans (position x mode x repetitions x re-establishment failures x writes during the outage) on the real client adapter and server over an in-process transport, virtual clock, exact quiescence; plus stateless exploration of schedules for selected plans",
		Rule:         "10 watch flavours (incl. label- and ID-selector watches, bootstrap-bookmark + tail, one resource + tail) x fault positions 0..5 x {before message, message lost} x repeat 0..2 x failed re-establishments 0..2 x outage writes 0..2, plus retries disabled, server restarted, history moved on; non-trivial = distinct plans",
		Assume:       []string{"transport failures are modelled at the Recv/Watch-call seam the client code sees (Unavailable)", "a restarted server is modelled by replacing the backend with a fresh, shorter log (the bookmark cookie is process-global)"},
		Extra:        map[string]any{"explanation": "states = fault plans executed; transitions = scheduler steps"},
	}, build)
}
