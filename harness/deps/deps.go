// Package deps pins the module requirements of the harnesses.
package deps

import (
	_ "github.com/anishathalye/porcupine"
	_ "github.com/cosi-project/runtime/pkg/controller/runtime"
	_ "github.com/cosi-project/runtime/pkg/state/impl/inmem"
	_ "github.com/cosi-project/runtime/pkg/state/impl/store/bolt"
	_ "github.com/cosi-project/runtime/pkg/state/protobuf/client"
	_ "github.com/cosi-project/runtime/pkg/state/protobuf/server"
)
