// Harness C16: fault containment, loud failure and clean shutdown of the controller runtime (and pkg/task).
package main

import (
	"context"
	"errors"
	"fmt"
	"strings"
	"time"

	"go.uber.org/zap"

	"github.com/cosi-project/runtime/pkg/controller"
	"github.com/cosi-project/runtime/pkg/controller/conformance"
	"github.com/cosi-project/runtime/pkg/controller/runtime"
	"github.com/cosi-project/runtime/pkg/controller/runtime/options"
	"github.com/cosi-project/runtime/pkg/resource"
	"github.com/cosi-project/runtime/pkg/state"
	"github.com/cosi-project/runtime/pkg/state/impl/inmem"
	"github.com/cosi-project/runtime/pkg/state/impl/namespaced"
	"github.com/cosi-project/runtime/pkg/task"
	"verif.local/explore"
	"verif.local/harness/hx"
	"verif.local/harness/px"
	"verif.local/vrt"
	"verif.local/vrt/vctx"
)

const (
	tInt = conformance.IntResourceType
	tStr = conformance.StrResourceType
)

type outcome int

const (
	oOK outcome = iota
	oErr
	oPanic
	nOut
)

var oNames = []string{"ok", "error", "panic"}

func patName(p []outcome) string {
	s := make([]string, len(p))
	for i, o := range p {
		s[i] = oNames[o]
	}
	return strings.Join(s, ",")
}

func update(ctx context.Context, st state.State, id string) {
	if _, err := st.UpdateWithConflicts(ctx, hx.IntPtr(id), func(r resource.Resource) error {
		r.(*conformance.IntResource).SetValue(r.(*conformance.IntResource).Value() + 1)
		return nil
	}); err != nil {
		panic(err)
	}
}

func lastIntCommit(log *hx.Log) int {
	for i := log.Len() - 1; i >= 0; i-- {
		if log.Entries[i].Type == tInt {
			return i
		}
	}
	return -1
}

// drain runs to quiescence firing timers (virtual clock) until none is left or the horizon is reached.
func drain(horizon time.Duration, beforeFirstTimer func()) {
	for i := 0; i < 256; i++ {
		vrt.WaitQuiescent()
		if i == 0 && beforeFirstTimer != nil {
			beforeFirstTimer()
		}
		t, ok := vrt.PendingTimer()
		if !ok || time.Duration(t) > horizon {
			return
		}
		vrt.FireNextTimer()
	}
}

// ---------------------------------------------------------------- A. fault patterns on a Controller

func ctrlPattern(x *explore.X, pattern []outcome) int {
	label := "controller pattern " + patName(pattern)
	res := vrt.Run(nil, vrt.Options{}, func() {
		ctx, cancel := context.WithCancel(context.Background())
		log := &hx.Log{}
		st := state.WrapCore(hx.NewNamespaced(log))
		if err := st.Create(ctx, conformance.NewIntResource(hx.NS, "a", 1)); err != nil {
			panic(err)
		}
		rt, err := runtime.NewRuntime(st, zap.NewNop(), options.WithMetrics(false))
		if err != nil {
			panic(err)
		}
		in := []controller.Input{{Namespace: hx.NS, Type: tInt, Kind: controller.InputWeak}}
		var starts, fails []time.Duration
		n, recAfterStart, lastStartIdx := 0, 0, -1
		faulty := &px.Probe{NameV: "faulty", InputsV: in}
		faulty.OnRun = func(context.Context, controller.Runtime) error {
			starts = append(starts, time.Duration(vrt.Now()))
			recAfterStart = 0
			return nil
		}
		faulty.OnEvent = func(_ context.Context, r controller.Runtime, _ int) error {
			recAfterStart++
			idx := log.Len()
			o := oOK
			if n < len(pattern) {
				o = pattern[n]
			}
			n++
			switch o {
			case oErr:
				fails = append(fails, time.Duration(vrt.Now()))
				return errors.New("injected failure")
			case oPanic:
				fails = append(fails, time.Duration(vrt.Now()))
				panic("injected panic")
			}
			lastStartIdx = idx
			r.ResetRestartBackoff()
			return nil
		}
		healthyIdx := -1
		healthy := &px.Probe{NameV: "healthy", InputsV: in}
		healthy.OnEvent = func(context.Context, controller.Runtime, int) error { healthyIdx = log.Len(); return nil }
		for _, p := range []*px.Probe{faulty, healthy} {
			if err := rt.RegisterController(p); err != nil {
				panic(err)
			}
		}
		runDone := false
		vrt.Go(func() { rt.Run(ctx); runDone = true }) //nolint:errcheck
		vrt.WaitQuiescent()
		// a write while the faulty controller is (possibly) backing off: the healthy one must see it at once
		update(ctx, st, "a")
		drain(30*time.Minute, func() {
			if healthyIdx <= lastIntCommit(log) {
				x.FailKey("contain/isolation", "%s: the healthy controller was not reconciled for commit #%d before any back-off timer fired (last reconcile at log length %d)", label, lastIntCommit(log), healthyIdx)
			}
		})
		// fresh notifications continue the pattern after successes
		for round := 0; n < len(pattern) && round < 2*len(pattern); round++ {
			update(ctx, st, "a")
			drain(30*time.Minute, nil)
		}
		// every failure is followed by a restart, restarts back off exponentially, success resets
		if len(starts) != len(fails)+1 {
			x.FailKey("contain/restart", "%s: %d failures but %d controller starts (every failure must be followed by exactly one restart): starts %v fails %v", label, len(fails), len(starts), starts, fails)
		}
		var prev time.Duration
		for i := 0; i < len(fails) && i+1 < len(starts); i++ {
			gap := starts[i+1] - fails[i]
			if gap <= 0 {
				x.FailKey("contain/backoff", "%s: restart %d came without back-off: %v", label, i, gap)
			}
			consecutive := i > 0 && pattern[i-1+countOK(pattern, i)] != oOK
			_ = consecutive
			if prev > 0 && isConsecutiveFailure(pattern, i) && gap <= prev {
				x.FailKey("contain/backoff", "%s: back-off did not grow between consecutive failures: %v then %v (starts %v fails %v)", label, prev, gap, starts, fails)
			}
			if !isConsecutiveFailure(pattern, i) && i > 0 && gap != starts[1]-fails[0] {
				x.FailKey("contain/backoff-reset", "%s: back-off was not reset by the success before failure %d: waited %v, the first failure waited %v", label, i, gap, starts[1]-fails[0])
			}
			prev = gap
		}
		if recAfterStart == 0 && len(fails) > 0 {
			x.FailKey("contain/fresh-reconcile", "%s: the controller was restarted but got no reconcile after its last restart", label)
		}
		if lastStartIdx <= lastIntCommit(log) {
			x.FailKey("contain/converge", "%s: after the faults ceased the faulty controller's last successful reconcile (log length %d) does not cover commit #%d", label, lastStartIdx, lastIntCommit(log))
		}
		cancel()
		vrt.WaitQuiescent()
		if !runDone {
			x.FailKey("shutdown/run", "%s: Run did not return after cancel", label)
		}
	})
	for _, p := range res.Panics {
		x.FailKey("contain/crash", "%s: a panic escaped (process would crash): %s", label, p)
	}
	if len(res.Live) > 0 {
		x.FailKey("shutdown/leak", "%s: goroutines alive at the end: %v", label, res.Live)
	}
	return res.Steps
}

// isConsecutiveFailure: failure number i (0-based among failures) directly follows another failure in the pattern.
func isConsecutiveFailure(pattern []outcome, i int) bool {
	k := -1
	for idx, o := range pattern {
		if o != oOK {
			k++
			if k == i {
				return idx > 0 && pattern[idx-1] != oOK
			}
		}
	}
	return false
}

func countOK(pattern []outcome, i int) int { return 0 }

// ---------------------------------------------------------------- A'. queue controller: run hook and MapInput faults

func qPattern(x *explore.X, pattern []outcome, what string) int {
	label := fmt.Sprintf("qcontroller %s pattern %s", what, patName(pattern))
	res := vrt.Run(nil, vrt.Options{}, func() {
		ctx, cancel := context.WithCancel(context.Background())
		log := &hx.Log{}
		st := state.WrapCore(hx.NewNamespaced(log))
		for _, r := range []resource.Resource{conformance.NewIntResource(hx.NS, "a", 1), conformance.NewStrResource(hx.NS, "m", "v")} {
			if err := st.Create(ctx, r); err != nil {
				panic(err)
			}
		}
		rt, err := runtime.NewRuntime(st, zap.NewNop(), options.WithMetrics(false))
		if err != nil {
			panic(err)
		}
		n := 0
		var calls []time.Duration
		next := func() outcome {
			o := oOK
			if n < len(pattern) {
				o = pattern[n]
			}
			n++
			calls = append(calls, time.Duration(vrt.Now()))
			return o
		}
		hookDone, shutdownHook := false, false
		recA := -1
		qp := &px.QProbe{NameV: "q"}
		qp.SettingsV = controller.QSettings{
			Inputs:       []controller.Input{{Namespace: hx.NS, Type: tInt, Kind: controller.InputQPrimary}, {Namespace: hx.NS, Type: tStr, Kind: controller.InputQMapped}},
			ShutdownHook: func() { shutdownHook = true },
		}
		if what == "runhook" {
			qp.SettingsV.RunHook = func(ctx context.Context, _ *zap.Logger, _ controller.QRuntime) error {
				switch next() {
				case oErr:
					return errors.New("injected hook failure")
				case oPanic:
					panic("injected hook panic")
				}
				hookDone = true
				vrt.Recv1(ctx.Done())
				return nil
			}
		}
		qp.OnReconcile = func(_ context.Context, _ controller.QRuntime, p resource.Pointer) error {
			if p.ID() == "a" {
				recA = log.Len()
			}
			return nil
		}
		qp.OnMap = func(context.Context, controller.QRuntime, controller.ReducedResourceMetadata) ([]resource.Pointer, error) {
			if what == "mapinput" {
				switch next() {
				case oErr:
					return nil, errors.New("injected map failure")
				case oPanic:
					panic("injected map panic")
				}
			}
			return []resource.Pointer{hx.IntPtr("a")}, nil
		}
		healthyIdx := -1
		healthy := &px.Probe{NameV: "healthy", InputsV: []controller.Input{{Namespace: hx.NS, Type: tInt, Kind: controller.InputWeak}}}
		healthy.OnEvent = func(context.Context, controller.Runtime, int) error { healthyIdx = log.Len(); return nil }
		if err := rt.RegisterQController(qp); err != nil {
			panic(err)
		}
		if err := rt.RegisterController(healthy); err != nil {
			panic(err)
		}
		runDone := false
		vrt.Go(func() { rt.Run(ctx); runDone = true }) //nolint:errcheck
		vrt.WaitQuiescent()
		update(ctx, st, "a")
		drain(30*time.Minute, func() {
			if healthyIdx <= lastIntCommit(log) || recA <= lastIntCommit(log) {
				x.FailKey("contain/isolation", "%s: commit #%d was not reconciled by the healthy controller (log length %d) and by the queue item a (log length %d) before any back-off timer fired", label, lastIntCommit(log), healthyIdx, recA)
			}
		})
		// a mapped-input change must reach primary a even though MapInput fails first
		if _, err := st.UpdateWithConflicts(ctx, resource.NewMetadata(hx.NS, tStr, "m", resource.VersionUndefined), func(r resource.Resource) error {
			r.(*conformance.StrResource).SetValue("v2")
			return nil
		}); err != nil {
			panic(err)
		}
		mapped := log.Len() - 1
		drain(30*time.Minute, nil)
		if recA <= mapped {
			x.FailKey("contain/converge", "%s: the mapped input change (commit #%d) never reached primary a (its last reconcile started at log length %d) although faults ceased", label, mapped, recA)
		}
		if what == "runhook" && !hookDone {
			x.FailKey("contain/restart", "%s: the run hook was not restarted until it succeeded (calls at %v)", label, calls)
		}
		// exponential back-off between consecutive failing invocations
		for i := 2; i < len(calls) && i <= len(pattern); i++ {
			// growing until the ceiling of one minute can have been reached, never shrinking afterwards
			prev, gap := calls[i-1]-calls[i-2], calls[i]-calls[i-1]
			if pattern[i-1] != oOK && pattern[i-2] != oOK && (gap < prev || (gap == prev && prev < 30*time.Second)) {
				x.FailKey("contain/backoff", "%s: back-off did not grow: invocations at %v", label, calls)
			}
		}
		for i := 1; i < len(calls) && i <= len(pattern); i++ {
			if pattern[i-1] != oOK && calls[i] == calls[i-1] {
				x.FailKey("contain/backoff", "%s: retry without back-off: invocations at %v", label, calls)
			}
		}
		cancel()
		vrt.WaitQuiescent()
		if !runDone {
			x.FailKey("shutdown/run", "%s: Run did not return after cancel", label)
		}
		if !shutdownHook {
			x.FailKey("shutdown/hook", "%s: the shutdown hook did not run", label)
		}
	})
	for _, p := range res.Panics {
		x.FailKey("contain/crash", "%s: a panic escaped (process would crash): %s", label, p)
	}
	if len(res.Live) > 0 {
		x.FailKey("shutdown/leak", "%s: goroutines alive at the end: %v", label, res.Live)
	}
	return res.Steps
}

// ---------------------------------------------------------------- A''. queue controller: a failing queue item

const oRequeue = nOut // success with requeue-after (queue items only)

const requeueAfter = 10 * time.Minute

func qItemName(p []outcome) string {
	s := make([]string, len(p))
	for i, o := range p {
		if o == oRequeue {
			s[i] = "ok+requeue"
		} else {
			s[i] = oNames[o]
		}
	}
	return strings.Join(s, ",")
}

// qItemPattern: the reconciles of queue item a end as the pattern says (then ok); item b and a healthy controller
// run next to it. Retries come with growing back-off that every success (with or without requeue) resets, a
// requeue-after is honoured exactly, the other item is reconciled before any back-off timer fires, and after the
// faults cease a change of a mapped input still reaches item a.
func qItemPattern(x *explore.X, pattern []outcome) int {
	label := "qcontroller item pattern " + qItemName(pattern)
	res := vrt.Run(nil, vrt.Options{}, func() {
		ctx, cancel := context.WithCancel(context.Background())
		log := &hx.Log{}
		st := state.WrapCore(hx.NewNamespaced(log))
		for _, r := range []resource.Resource{conformance.NewIntResource(hx.NS, "a", 1), conformance.NewStrResource(hx.NS, "m", "v")} {
			if err := st.Create(ctx, r); err != nil {
				panic(err)
			}
		}
		rt, err := runtime.NewRuntime(st, zap.NewNop(), options.WithMetrics(false))
		if err != nil {
			panic(err)
		}
		n := 0
		var calls []time.Duration
		recA, recB, okA := -1, -1, -1
		qp := &px.QProbe{NameV: "q"}
		qp.SettingsV = controller.QSettings{
			Inputs: []controller.Input{{Namespace: hx.NS, Type: tInt, Kind: controller.InputQPrimary}, {Namespace: hx.NS, Type: tStr, Kind: controller.InputQMapped}},
		}
		qp.OnReconcile = func(_ context.Context, _ controller.QRuntime, p resource.Pointer) error {
			if p.ID() != "a" {
				recB = log.Len()
				return nil
			}
			recA = log.Len()
			o := oOK
			if n < len(pattern) {
				o = pattern[n]
			}
			n++
			calls = append(calls, time.Duration(vrt.Now()))
			switch o {
			case oErr:
				return errors.New("injected item failure")
			case oPanic:
				panic("injected item panic")
			case oRequeue:
				okA = recA
				return controller.NewRequeueInterval(requeueAfter)
			}
			okA = recA
			return nil
		}
		qp.OnMap = func(context.Context, controller.QRuntime, controller.ReducedResourceMetadata) ([]resource.Pointer, error) {
			return []resource.Pointer{hx.IntPtr("a")}, nil
		}
		healthyIdx := -1
		healthy := &px.Probe{NameV: "healthy", InputsV: []controller.Input{{Namespace: hx.NS, Type: tInt, Kind: controller.InputWeak}}}
		healthy.OnEvent = func(context.Context, controller.Runtime, int) error { healthyIdx = log.Len(); return nil }
		if err := rt.RegisterQController(qp); err != nil {
			panic(err)
		}
		if err := rt.RegisterController(healthy); err != nil {
			panic(err)
		}
		runDone := false
		vrt.Go(func() { rt.Run(ctx); runDone = true }) //nolint:errcheck
		drain(30*time.Minute, func() {
			// item a has had its first reconcile (and is backing off if that failed): a new item and the healthy
			// controller must be served before any back-off timer fires
			if err := st.Create(ctx, conformance.NewIntResource(hx.NS, "b", 1)); err != nil {
				panic(err)
			}
			vrt.WaitQuiescent()
			if healthyIdx <= lastIntCommit(log) || recB <= lastIntCommit(log) {
				x.FailKey("contain/isolation", "%s: the creation of item b (commit #%d) was not reconciled by the healthy controller (log length %d) and as queue item b (log length %d) before any back-off timer fired", label, lastIntCommit(log), healthyIdx, recB)
			}
		})
		// fresh notifications continue the pattern after successes; the last one comes through the mapped input
		for round := 0; n < len(pattern) && round < 2*len(pattern); round++ {
			update(ctx, st, "a")
			drain(30*time.Minute, nil)
		}
		if _, err := st.UpdateWithConflicts(ctx, resource.NewMetadata(hx.NS, tStr, "m", resource.VersionUndefined), func(r resource.Resource) error {
			r.(*conformance.StrResource).SetValue("v2")
			return nil
		}); err != nil {
			panic(err)
		}
		mapped := log.Len() - 1
		drain(30*time.Minute, nil)
		if okA <= mapped {
			x.FailKey("contain/converge", "%s: the mapped input change (commit #%d) was never reconciled successfully for item a (last success started at log length %d) although faults ceased: invocations at %v", label, mapped, okA, calls)
		}
		// retries: back-off after every failure, growing between consecutive failures, reset by any success
		var first, prev time.Duration
		for i := 1; i < len(calls) && i <= len(pattern); i++ {
			gap := calls[i] - calls[i-1]
			switch pattern[i-1] {
			case oRequeue:
				if gap != requeueAfter {
					x.FailKey("contain/requeue", "%s: invocation %d came %v after a success that asked for requeue after %v (no notification in between): invocations at %v", label, i, gap, requeueAfter, calls)
				}
			case oErr, oPanic:
				if gap <= 0 {
					x.FailKey("contain/backoff", "%s: retry %d without back-off: invocations at %v", label, i, calls)
				}
				consecutive := i >= 2 && (pattern[i-2] == oErr || pattern[i-2] == oPanic)
				if first == 0 {
					first = gap
				}
				if consecutive && gap <= prev {
					x.FailKey("contain/backoff", "%s: back-off did not grow between consecutive failures: %v then %v: invocations at %v", label, prev, gap, calls)
				}
				if !consecutive && gap != first {
					x.FailKey("contain/backoff-reset", "%s: back-off was not reset by the success before failure %d: waited %v, the first failure waited %v: invocations at %v", label, i-1, gap, first, calls)
				}
				prev = gap
			}
		}
		if n < len(pattern) {
			x.FailKey("contain/restart", "%s: only %d of %d outcomes were consumed: a failed item was not retried (invocations at %v)", label, n, len(pattern), calls)
		}
		cancel()
		vrt.WaitQuiescent()
		if !runDone {
			x.FailKey("shutdown/run", "%s: Run did not return after cancel", label)
		}
	})
	for _, p := range res.Panics {
		x.FailKey("contain/crash", "%s: a panic escaped (process would crash): %s", label, p)
	}
	if len(res.Live) > 0 {
		x.FailKey("shutdown/leak", "%s: goroutines alive at the end: %v", label, res.Live)
	}
	return res.Steps
}

func qItemScenario() explore.Scenario {
	return explore.Scenario{
		Name:       "patterns/queue-item",
		Desc:       "every outcome pattern of length <= 3 over {ok, ok+requeue-after, error, panic} for the reconciles of one queue item, next to a second item and a healthy controller, on the real runtime with a virtual clock: retries with growing back-off that every success resets, requeue-after honoured exactly, the other item and the other controller served before any back-off timer fires, convergence through a mapped input after the faults cease, no escaping panic, clean shutdown",
		Sequential: true,
		Body: func(x *explore.X) {
			n, steps := 0, 0
			var rec func(p []outcome)
			rec = func(p []outcome) {
				if len(p) > 0 {
					steps += qItemPattern(x, p)
					n++
				}
				if len(p) == 3 {
					return
				}
				for o := outcome(0); o <= oRequeue; o++ {
					rec(append(append([]outcome{}, p...), o))
				}
			}
			rec(nil)
			x.Add("states", n)
			x.Add("transitions", steps)
			x.Add("evaluations", n)
			x.Add("distinct_nontrivial", n)
			x.Add("traces_validated_against_impl", n)
			x.Sample(map[string]any{"pattern": "error,ok+requeue,error", "target": "qcontroller item reconcile"})
			x.Outcome("patterns=%d", n)
		},
	}
}

func patternScenario() explore.Scenario {
	return explore.Scenario{
		Name:       "patterns/controller+runhook+mapinput",
		Desc:       "every outcome pattern of length <= 3 over {ok, error, panic} for (a) a Controller's reconcile loop, (b) a QController run hook, (c) a QController MapInput, next to a healthy controller, on the real runtime with a virtual clock: restarts with growing, success-resettable back-off and a fresh reconcile, isolation of the healthy controller and of other queue items before any back-off timer fires, convergence after the faults cease, no escaping panic, clean shutdown with hooks run",
		Sequential: true,
		Body: func(x *explore.X) {
			n, steps := 0, 0
			var rec func(p []outcome)
			rec = func(p []outcome) {
				if len(p) > 0 {
					steps += ctrlPattern(x, p)
					steps += qPattern(x, p, "runhook")
					steps += qPattern(x, p, "mapinput")
					n += 3
				}
				if len(p) == 3 {
					return
				}
				for o := outcome(0); o < nOut; o++ {
					rec(append(append([]outcome{}, p...), o))
				}
			}
			rec(nil)
			// a run hook that keeps failing for a quarter of an hour of virtual time (seed c16i: a restart loop that
			// measures "ran long enough to reset the back-off" from the wrong instant is right for the first minute)
			for _, o := range []outcome{oErr, oPanic} {
				long := make([]outcome, 24)
				for i := range long {
					long[i] = o
				}
				steps += qPattern(x, long, "runhook")
				n++
			}
			x.Add("states", n)
			x.Add("transitions", steps)
			x.Add("evaluations", n)
			x.Add("distinct_nontrivial", n)
			x.Add("traces_validated_against_impl", n)
			x.Sample(map[string]any{"pattern": "error,panic,ok", "targets": []string{"controller reconcile", "qcontroller run hook", "qcontroller MapInput"}})
			x.Outcome("patterns=%d", n)
		},
	}
}

// ---------------------------------------------------------------- B. watch failure is loud; C. cancellation at any instant

// errInjector forwards an aggregated kind watch and can push an Errored event into it.
type errInjector struct {
	state.CoreState
	chans []chan<- []state.Event
}

func (e *errInjector) WatchKindAggregated(ctx context.Context, k resource.Kind, ch chan<- []state.Event, opts ...state.WatchKindOption) error {
	vrt.TouchKey("c16.shared", true)
	e.chans = append(e.chans, ch)
	return e.CoreState.WatchKindAggregated(ctx, k, ch, opts...)
}

var errWatch = errors.New("injected watch failure")

func shutdownScenario(name string, watchFail bool, q bool, bounds []int) explore.Scenario {
	startup := strings.Contains(name, "startup")
	return explore.Scenario{
		Name:     name,
		MaxExecs: 600000,
		HB:       true,
		Desc:     fmt.Sprintf("real runtime with an output-writing probe (queue flavour=%v) and a writer; %s at a scheduler-chosen instant: Run must return (with the watch error, if injected), no runtime goroutine may stay alive, shutdown hooks run, and no commit may happen after Run returned", q, map[bool]string{true: "an Errored event is injected into the runtime's aggregated watch", false: "the context is cancelled"}[watchFail]),
		Bounds:   bounds,
		Body: func(x *explore.X) {
			ctx, cancel := vctx.WithCancel(context.Background())
			log := &hx.Log{}
			inj := &errInjector{CoreState: hx.NewNamespaced(log)}
			st := state.WrapCore(inj)
			if err := st.Create(ctx, conformance.NewIntResource(hx.NS, "a", 1)); err != nil {
				panic(err)
			}
			rt, err := runtime.NewRuntime(st, zap.NewNop(), options.WithMetrics(false))
			if err != nil {
				panic(err)
			}
			out := []controller.Output{{Type: tStr, Kind: controller.OutputExclusive}}
			writeOut := func(ctx context.Context, w controller.Writer) {
				w.Modify(ctx, conformance.NewStrResource(hx.NS, "out", ""), func(r resource.Resource) error { //nolint:errcheck
					r.(*conformance.StrResource).SetValue(fmt.Sprint(log.Len()))
					return nil
				})
			}
			shutdownHook := !q
			if q {
				qp := &px.QProbe{NameV: "w", SettingsV: controller.QSettings{
					Inputs: []controller.Input{{Namespace: hx.NS, Type: tInt, Kind: controller.InputQPrimary}}, Outputs: out,
					ShutdownHook: func() { vrt.TouchKey("c16.shared", true); shutdownHook = true },
				}}
				qp.OnReconcile = func(ctx context.Context, r controller.QRuntime, _ resource.Pointer) error {
					writeOut(ctx, r)
					return nil
				}
				if err := rt.RegisterQController(qp); err != nil {
					panic(err)
				}
			} else {
				p := &px.Probe{NameV: "w", InputsV: []controller.Input{{Namespace: hx.NS, Type: tInt, Kind: controller.InputWeak}}, OutputsV: out}
				p.OnEvent = func(ctx context.Context, r controller.Runtime, _ int) error { writeOut(ctx, r); return nil }
				if err := rt.RegisterController(p); err != nil {
					panic(err)
				}
			}
			var runErr error
			runDone, doneAt := false, -1
			if !startup {
				vrt.Branching(false)
			}
			vrt.GoNamed("runtime.Run", func() {
				runErr = rt.Run(ctx)
				vrt.TouchKey("c16.shared", true)
				runDone = true
				doneAt = log.Len()
			})
			if !startup {
				vrt.WaitQuiescent()
				vrt.Branching(true)
			}
			injected := false
			vrt.GoNamed("disturber", func() {
				vrt.Point() // may fire at any scheduling point (one preemption) or when everything else is blocked
				vrt.TouchKey("c16.shared", true)
				if watchFail && len(inj.chans) > 0 {
					injected = true
					vrt.Select(false, vrt.SendCase(inj.chans[0]).With([]state.Event{{Type: state.Errored, Error: errWatch}}), vrt.RecvCase(ctx.Done()))
				} else {
					cancel() // (the watch does not exist yet: plain cancellation)
				}
			})
			vrt.Yield()
			if !startup {
				update(ctx, st, "a")
			}
			vrt.WaitQuiescent()
			vrt.TouchKey("c16.shared", true)
			if !runDone {
				x.Failf("Run did not return (watchFail=%v): the runtime keeps running on a failed watch or ignores cancellation", watchFail)
				cancel()
				vrt.WaitQuiescent()
				return
			}
			if injected && !errors.Is(runErr, errWatch) {
				x.Failf("an underlying watch failed but Run returned %v instead of that error", runErr)
			}
			if !shutdownHook {
				x.Failf("Run returned but the shutdown hook did not run")
			}
			for _, e := range log.Entries[doneAt:] {
				if e.Type == tStr { // outputs are written by the controller only
					x.Failf("a write was issued by a controller after Run returned: %v", e)
				}
			}
			x.Outcome("err=%v commits=%d", runErr != nil, log.Len())
			vrt.Branching(false)
			cancel()
			vrt.WaitQuiescent()
		},
	}
}

// ---------------------------------------------------------------- C2. a failing output sweep next to a healthy controller

// trackingScenario: two controllers with output tracking. F's sweep fails (a foreign finalizer pins one of
// its stale outputs) until the finalizer is removed; V never fails. After F has recovered, one more change
// makes both reconcile at the same time, all schedules: V's outputs are exactly what V wrote, F's are exactly
// its current ones - the faults of F are over and must have left nothing behind.
func trackingScenario(bounds []int) explore.Scenario {
	tSen := conformance.SentenceResourceType
	return explore.Scenario{
		Name:     "tracking/panic-failed-sweep-then-overlap",
		MaxExecs: 250000,
		HB:       true,
		Desc:     "two probe controllers using StartTrackingOutputs/CleanupOutputs; F's first pass panics between the two calls, then its CleanupOutputs fails twice (a foreign finalizer on a stale output) and then recovers; afterwards both reconcile concurrently: the healthy controller's outputs must survive its own sweep and F's must be exactly its current ones",
		Bounds:   bounds,
		Body: func(x *explore.X) {
			ctx, cancel := vctx.WithCancel(context.Background())
			st := state.WrapCore(namespaced.NewState(inmem.Build))
			vrt.Branching(false)
			if err := st.Create(ctx, conformance.NewIntResource(hx.NS, "a", 1)); err != nil {
				panic(err)
			}
			stale := conformance.NewStrResource(hx.NS, "f-stale", "old")
			stale.Metadata().Finalizers().Add("hold")
			if err := st.Create(ctx, stale, state.WithCreateOwner("F")); err != nil {
				panic(err)
			}
			rt, err := runtime.NewRuntime(st, zap.NewNop(), options.WithMetrics(false))
			if err != nil {
				panic(err)
			}
			in := []controller.Input{{Namespace: hx.NS, Type: tInt, Kind: controller.InputWeak}}
			fFails := 0
			f := &px.Probe{NameV: "F", InputsV: in, OutputsV: []controller.Output{{Type: tStr, Kind: controller.OutputExclusive}}}
			injected, afterPanic := false, ""
			f.OnEvent = func(ctx context.Context, r controller.Runtime, _ int) (err error) {
				defer func() {
					if p := recover(); p != nil {
						if s := fmt.Sprint(p); s != "injected panic while tracking outputs" {
							vrt.TouchKey("c16.tracking", true)
							afterPanic = s
						}
						panic(p)
					}
				}()
				r.StartTrackingOutputs()
				if !injected {
					// the very first pass dies between StartTrackingOutputs and CleanupOutputs
					injected = true
					panic("injected panic while tracking outputs")
				}
				if err := r.Modify(ctx, conformance.NewStrResource(hx.NS, "f-cur", ""), func(res resource.Resource) error {
					res.(*conformance.StrResource).SetValue("cur")
					return nil
				}); err != nil {
					return err
				}
				if err := r.CleanupOutputs(ctx, resource.NewMetadata(hx.NS, tStr, "", resource.VersionUndefined)); err != nil {
					vrt.TouchKey("c16.tracking", true)
					fFails++
					return err
				}
				return nil
			}
			v := &px.Probe{NameV: "V", InputsV: in, OutputsV: []controller.Output{{Type: tSen, Kind: controller.OutputExclusive}}}
			v.OnEvent = func(ctx context.Context, r controller.Runtime, _ int) error {
				r.StartTrackingOutputs()
				for _, id := range []string{"v1", "v2"} {
					if err := r.Modify(ctx, conformance.NewSentenceResource(hx.NS, id, ""), func(res resource.Resource) error { return nil }); err != nil {
						return err
					}
				}
				vrt.Yield() // the pass takes time: another controller's pass may start meanwhile
				return r.CleanupOutputs(ctx, resource.NewMetadata(hx.NS, tSen, "", resource.VersionUndefined))
			}
			for _, p := range []*px.Probe{f, v} {
				if err := rt.RegisterController(p); err != nil {
					panic(err)
				}
			}
			runDone := false
			vrt.GoNamed("runtime.Run", func() { rt.Run(ctx); vrt.TouchKey("c16.tracking", true); runDone = true }) //nolint:errcheck
			// F fails and is restarted with back-off until it has failed twice
			for i := 0; i < 64 && fFails < 2; i++ {
				vrt.WaitQuiescent()
				vrt.TouchKey("c16.tracking", false)
				if _, ok := vrt.PendingTimer(); !ok {
					break
				}
				vrt.FireNextTimer()
			}
			if afterPanic != "" {
				x.FailKey("tracking/restart-after-panic", "F panicked once while tracking outputs; its restarted pass did not get a fresh start: %s", afterPanic)
			}
			if fFails < 2 {
				x.FailKey("harness/tracking", "F's sweep failed %d times, expected at least 2 (the scenario does not reach its start state)", fFails)
			}
			if err := st.RemoveFinalizer(ctx, stale.Metadata(), "hold"); err != nil {
				panic(err)
			}
			drain(10*time.Minute, nil) // F recovers: sweeps f-stale
			vrt.Branching(true)
			update(ctx, st, "a") // one more change: both reconcile, at the same time
			drain(10*time.Minute, nil)
			vrt.Branching(false)
			list := func(typ resource.Type) string {
				l, err := st.List(ctx, resource.NewMetadata(hx.NS, typ, "", resource.VersionUndefined))
				if err != nil {
					panic(err)
				}
				var ids []string
				for _, r := range l.Items {
					ids = append(ids, r.Metadata().ID())
				}
				return strings.Join(ids, ",")
			}
			if got := list(tSen); got != "v1,v2" {
				x.FailKey("tracking/healthy-controller-lost-outputs", "after F's failed sweeps were over, the outputs of V (which never failed) are [%s], expected [v1,v2]: its own sweep destroyed what it had just written", got)
			}
			if got := list(tStr); got != "f-cur" {
				x.FailKey("tracking/faulty-controller-outputs", "after recovery F's outputs are [%s], expected [f-cur]", got)
			}
			x.Outcome("sen=[%s] str=[%s]", list(tSen), list(tStr))
			cancel()
			vrt.WaitQuiescent()
			if !runDone {
				x.Failf("Run did not return after cancel")
			}
		},
	}
}

// ---------------------------------------------------------------- D. pkg/task

type spec struct {
	id      string
	ver     int
	pattern []outcome
	st      *taskState
}

type taskState struct {
	running  map[string]int
	maxConc  int
	calls    map[string][]time.Duration
	n        map[string]int
	afterCtx int
}

func (s spec) ID() string        { return s.id }
func (s spec) Equal(o spec) bool { return s.id == o.id && s.ver == o.ver }
func (s spec) RunTask(ctx context.Context, _ *zap.Logger, _ struct{}) error {
	key := fmt.Sprintf("%s/v%d", s.id, s.ver)
	s.st.running[s.id]++
	if s.st.running[s.id] > s.st.maxConc {
		s.st.maxConc = s.st.running[s.id]
	}
	defer func() { s.st.running[s.id]-- }()
	s.st.calls[key] = append(s.st.calls[key], time.Duration(vrt.Now()))
	i := s.st.n[key]
	s.st.n[key]++
	o := oOK
	if i < len(s.pattern) {
		o = s.pattern[i]
	}
	vrt.Yield()
	switch o {
	case oErr:
		return errors.New("injected task failure")
	case oPanic:
		panic("injected task panic")
	}
	vrt.Recv1(ctx.Done()) // a healthy task runs until stopped
	return nil
}

func taskScenario(pattern []outcome, action string, bounds []int) explore.Scenario {
	return explore.Scenario{
		Name:   fmt.Sprintf("task/%s/%s", patName(pattern), action),
		Desc:   fmt.Sprintf("task.Runner with a task whose invocations return %s (then run until stopped); a second actor performs %q at a scheduler-chosen instant: restarts back off exponentially on the virtual clock, never two instances of one task id at once, after Stop no task goroutine is alive", patName(pattern), action),
		Bounds: bounds,
		Body: func(x *explore.X) {
			ctx, cancel := context.WithCancel(context.Background())
			ts := &taskState{running: map[string]int{}, calls: map[string][]time.Duration{}, n: map[string]int{}}
			r := task.NewEqualRunner[spec]()
			log := zap.NewNop()
			r.StartTask(ctx, log, "t", spec{"t", 1, pattern, ts}, struct{}{})
			vrt.GoNamed("actor", func() {
				vrt.Point()
				switch action {
				case "replace":
					r.Reconcile(ctx, log, map[string]spec{"t": {"t", 2, nil, ts}}, struct{}{})
				case "stop-task":
					r.StopTask(log, "t")
				case "reconcile-same":
					r.Reconcile(ctx, log, map[string]spec{"t": {"t", 1, pattern, ts}}, struct{}{})
				}
			})
			for i := 0; i < 32; i++ {
				vrt.WaitQuiescent()
				t, ok := vrt.PendingTimer()
				if !ok || time.Duration(t) > time.Hour {
					break
				}
				vrt.FireNextTimer()
			}
			if ts.maxConc > 1 {
				x.Failf("two instances of task t ran at the same time")
			}
			calls := ts.calls["t/v1"]
			for i := 2; i < len(calls) && i <= len(pattern); i++ {
				if calls[i]-calls[i-1] <= calls[i-1]-calls[i-2] {
					x.Failf("task restart back-off did not grow: invocations at %v", calls)
				}
			}
			for i := 1; i < len(calls) && i <= len(pattern); i++ {
				if calls[i] == calls[i-1] {
					x.Failf("task restarted without back-off: invocations at %v", calls)
				}
			}
			switch action {
			case "none", "reconcile-same":
				if len(calls) < len(pattern)+1 && ts.running["t"] == 0 {
					x.Failf("the failing task was not restarted until it ran: %d invocations for pattern %s", len(calls), patName(pattern))
				}
				if action == "reconcile-same" && len(ts.calls["t/v2"]) > 0 {
					x.Failf("reconciling with an equal spec replaced the task")
				}
			case "replace":
				if len(ts.calls["t/v2"]) == 0 {
					x.Failf("the replacement task was never started")
				}
			case "stop-task":
				if ts.running["t"] != 0 {
					x.Failf("StopTask returned but the task is still running")
				}
			}
			r.Stop()
			if ts.running["t"] != 0 {
				x.Failf("Runner.Stop returned but a task instance is still running")
			}
			x.Outcome("v1=%d v2=%d", len(ts.calls["t/v1"]), len(ts.calls["t/v2"]))
			vrt.Branching(false)
			cancel()
			vrt.WaitQuiescent()
		},
	}
}

func build(tier string) []explore.Scenario {
	b1 := []int{0, 1}
	if tier == "thorough" {
		b1 = []int{0, 1, 2}
	}
	out := []explore.Scenario{
		patternScenario(),
		qItemScenario(),
		shutdownScenario("shutdown/cancel/controller", false, false, b1),
		shutdownScenario("shutdown/cancel/qcontroller", false, true, b1),
		shutdownScenario("shutdown/watch-error/controller", true, false, b1),
		shutdownScenario("shutdown/watch-error/qcontroller", true, true, b1),
		shutdownScenario("shutdown/cancel/controller/during-startup", false, false, []int{0}),
		shutdownScenario("shutdown/cancel/qcontroller/during-startup", false, true, []int{0}),
		trackingScenario(b1),
	}
	for i := range out {
		if out[i].HB {
			// unsplit (one happens-before cache per scenario): the cap bounds the single-threaded long pole
			out[i].MaxExecs = 250000
			if tier == "thorough" {
				out[i].MaxExecs = 8000000
			}
		}
	}
	for _, p := range [][]outcome{{oOK}, {oErr}, {oPanic, oErr}, {oErr, oErr, oPanic}} {
		for _, a := range []string{"none", "replace", "stop-task", "reconcile-same"} {
			out = append(out, taskScenario(p, a, b1))
		}
	}
	return out
}

func main() {
	explore.Main(explore.Config{
		Property:  "C16",
		Technique: "exhaustive enumeration of fault patterns on the real runtime with a virtual clock at exact quiescence + stateless model checking (preemption-bounded) of cancellation / watch failure / task stop and replace at every scheduling point",
		Rule:      "patterns: every outcome pattern of length <= 3 over {ok,error,panic} x {controller reconcile, queue run hook, queue MapInput}; shutdown and task scenarios: one execution per schedule with the disturbing actor placed at every scheduling point (preemption bound 1); non-trivial = distinct patterns / schedules differing from the default",
		Assume:    []string{"back-off jitter pinned to the interval midpoint; timers fire only when nothing else is enabled", "a panic recorded by the scheduler at a goroutine root is 'the process would crash'"},
	}, build)
}
